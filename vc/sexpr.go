package main

import (
	"fmt"
	"strings"
)

// SX is an S-expression: either an atom or a list.
type SX struct {
	Atom string
	List []*SX
	IsL  bool
}

func (s *SX) String() string {
	if !s.IsL {
		return s.Atom
	}
	parts := make([]string, len(s.List))
	for i, e := range s.List {
		parts[i] = e.String()
	}
	return "(" + strings.Join(parts, " ") + ")"
}

func (s *SX) Head() string {
	if s.IsL && len(s.List) > 0 && !s.List[0].IsL {
		return s.List[0].Atom
	}
	return ""
}

func atom(a string) *SX          { return &SX{Atom: a} }
func list(items ...*SX) *SX      { return &SX{IsL: true, List: items} }
func isDelim(c byte) bool        { return c == '(' || c == ')' || c == ' ' || c == '\t' || c == '\n' || c == '\r' }
func sxErr(f string, a ...any) error { return fmt.Errorf(f, a...) }

// parseSX parses one or more S-expressions from src.
func parseSXAll(src string) ([]*SX, error) {
	p := &sxParser{s: src}
	var out []*SX
	for {
		p.skip()
		if p.i >= len(p.s) {
			return out, nil
		}
		e, err := p.parse()
		if err != nil {
			return nil, err
		}
		out = append(out, e)
	}
}

func parseSX(src string) (*SX, error) {
	all, err := parseSXAll(src)
	if err != nil {
		return nil, err
	}
	if len(all) != 1 {
		return nil, sxErr("expected exactly one s-expression, got %d in %q", len(all), src)
	}
	return all[0], nil
}

type sxParser struct {
	s string
	i int
}

func (p *sxParser) skip() {
	for p.i < len(p.s) {
		c := p.s[p.i]
		if c == ';' {
			for p.i < len(p.s) && p.s[p.i] != '\n' {
				p.i++
			}
			continue
		}
		if c == ' ' || c == '\t' || c == '\n' || c == '\r' {
			p.i++
			continue
		}
		break
	}
}

func (p *sxParser) parse() (*SX, error) {
	p.skip()
	if p.i >= len(p.s) {
		return nil, sxErr("unexpected end of input")
	}
	c := p.s[p.i]
	switch {
	case c == '(':
		p.i++
		l := &SX{IsL: true}
		for {
			p.skip()
			if p.i >= len(p.s) {
				return nil, sxErr("unbalanced '(' in %q", p.s)
			}
			if p.s[p.i] == ')' {
				p.i++
				return l, nil
			}
			e, err := p.parse()
			if err != nil {
				return nil, err
			}
			l.List = append(l.List, e)
		}
	case c == ')':
		return nil, sxErr("unexpected ')' at %d in %q", p.i, p.s)
	case c == '"':
		j := p.i + 1
		for j < len(p.s) && p.s[j] != '"' {
			j++
		}
		if j >= len(p.s) {
			return nil, sxErr("unterminated string in %q", p.s)
		}
		a := p.s[p.i : j+1]
		p.i = j + 1
		return atom(a), nil
	case c == '|':
		j := p.i + 1
		for j < len(p.s) && p.s[j] != '|' {
			j++
		}
		if j >= len(p.s) {
			return nil, sxErr("unterminated |symbol| in %q", p.s)
		}
		a := p.s[p.i : j+1]
		p.i = j + 1
		return atom(a), nil
	default:
		j := p.i
		depth := 0 // allow [..] with spaces/commas inside atoms, e.g. OrderedMap[K,V]
		for j < len(p.s) {
			ch := p.s[j]
			if ch == '[' {
				depth++
			} else if ch == ']' {
				depth--
			}
			if depth <= 0 && isDelim(ch) {
				break
			}
			j++
		}
		a := p.s[p.i:j]
		p.i = j
		return atom(a), nil
	}
}
