package main

import (
	"bytes"
	"context"
	"fmt"
	"os"
	"os/exec"
	"path/filepath"
	"strings"
	"sync"
	"time"
)

type SolverCfg struct {
	Name string
	Args func(file string, timeoutS int) []string
}

var solvers = []SolverCfg{
	{"z3-new", func(f string, t int) []string { return []string{"z3-new", fmt.Sprintf("-T:%d", t), f} }},
	{"cvc5", func(f string, t int) []string {
		return []string{"cvc5", "--incremental", fmt.Sprintf("--tlimit=%d", t*1000), f}
	}},
	{"z3", func(f string, t int) []string { return []string{"z3", fmt.Sprintf("-T:%d", t), f} }},
}

func runSolver(sc SolverCfg, file string, timeoutS int) (string, string, float64) {
	args := sc.Args(file, timeoutS)
	ctx, cancel := context.WithTimeout(context.Background(), time.Duration(timeoutS+5)*time.Second)
	defer cancel()
	cmd := exec.CommandContext(ctx, args[0], args[1:]...)
	var out bytes.Buffer
	cmd.Stdout = &out
	cmd.Stderr = &out
	t0 := time.Now()
	_ = cmd.Run()
	el := time.Since(t0).Seconds()
	o := out.String()
	for _, ln := range strings.Split(o, "\n") {
		ln = strings.TrimSpace(ln)
		if ln == "" || strings.HasPrefix(ln, "WARNING") || strings.HasPrefix(ln, ";") {
			continue
		}
		switch ln {
		case "sat", "unsat", "unknown":
			return ln, o, el
		}
		break
	}
	if strings.Contains(o, "timeout") {
		return "timeout", o, el
	}
	return "error", o, el
}

// discharge runs every obligation; tier decides time limits and cross-checking.
func discharge(obs []*Obligation, scratch string, tier string, seed int) {
	timeout := 10
	if tier == "thorough" {
		timeout = 60
	}
	order := solvers
	var wg sync.WaitGroup
	sem := make(chan struct{}, 16)
	for idx, ob := range obs {
		wg.Add(1)
		go func(idx int, ob *Obligation) {
			defer wg.Done()
			sem <- struct{}{}
			defer func() { <-sem }()
			if ob.Result != "" {
				return // decided inline during symbolic execution (consistency covers)
			}
			file := filepath.Join(scratch, fmt.Sprintf("ob%05d.smt2", idx))
			if err := os.WriteFile(file, []byte(ob.Script), 0o644); err != nil {
				ob.Result, ob.Output = "error", err.Error()
				return
			}
			total := 0.0
			for k, sc := range order {
				script := file
				if sc.Name == "cvc5" {
					// cvc5 wants produce-models before set-logic; our header already has that order
				}
				r, out, el := runSolver(sc, script, timeout)
				total += el
				if r == "sat" || r == "unsat" {
					ob.Result, ob.Solver, ob.Output = r, sc.Name, out
					break
				}
				if k == len(order)-1 || ob.Result == "" {
					ob.Result, ob.Solver, ob.Output = r, sc.Name, out
				}
			}
			ob.Seconds = total
			if tier == "thorough" && ob.Result == "unsat" && ob.Expect == "unsat" {
				// second opinion where another solver accepts the query
				for _, sc := range order {
					if sc.Name == ob.Solver {
						continue
					}
					r, out, el := runSolver(sc, file, timeout)
					ob.Seconds += el
					if r == "sat" {
						ob.Result, ob.Output = "disagree", "solver disagreement: "+ob.Solver+" unsat, "+sc.Name+" sat\n"+out
					}
					if r == "unsat" || r == "sat" {
						ob.Solver += "+" + sc.Name
						break
					}
				}
			}
			if ob.Result == ob.Expect || ob.Expect == "sat-any" {
				os.Remove(file)
			}
		}(idx, ob)
	}
	wg.Wait()
}
