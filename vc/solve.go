package main

import (
	"bytes"
	"context"
	"fmt"
	"os"
	"os/exec"
	"path/filepath"
	"strings"
	"sync"
	"time"
)

type SolverCfg struct {
	Name string
	Args func(file string, timeoutS int) []string
}

var solvers = []SolverCfg{
	// pure e-matching (no model-based instantiation, no auto-configuration): proves most frame/closure goals at once
	// and answers unknown, never sat, on goals it cannot prove; a proof found under any option set is a proof
	{"z3-new-ematch", func(f string, t int) []string {
		return []string{"z3-new", fmt.Sprintf("-T:%d", t), "smt.auto_config=false", "smt.mbqi=false", f}
	}},
	{"z3-new", func(f string, t int) []string { return []string{"z3-new", fmt.Sprintf("-T:%d", t), f} }},
	{"cvc5", func(f string, t int) []string {
		return []string{"cvc5", "--incremental", fmt.Sprintf("--tlimit=%d", t*1000), f}
	}},
	{"z3", func(f string, t int) []string { return []string{"z3", fmt.Sprintf("-T:%d", t), f} }},
}

func runSolver(sc SolverCfg, file string, timeoutS int) (string, string, float64) {
	return runSolverCtx(context.Background(), sc, file, timeoutS)
}

// raceSolvers runs the configurations concurrently and returns the first definite answer (the others are killed).
func raceSolvers(cfgs []SolverCfg, file string, timeoutS int) (string, string, string, float64) {
	ctx, cancel := context.WithCancel(context.Background())
	defer cancel()
	type ans struct {
		r, out, name string
	}
	ch := make(chan ans, len(cfgs))
	t0 := time.Now()
	for _, sc := range cfgs {
		go func(sc SolverCfg) {
			r, out, _ := runSolverCtx(ctx, sc, file, timeoutS)
			ch <- ans{r, out, sc.Name}
		}(sc)
	}
	last := ans{"unknown", "", cfgs[0].Name}
	for range cfgs {
		a := <-ch
		if a.r == "sat" || a.r == "unsat" {
			return a.r, a.out, a.name, time.Since(t0).Seconds()
		}
		if a.r == "timeout" || last.out == "" {
			last = a
		}
	}
	return last.r, last.out, last.name, time.Since(t0).Seconds()
}

func runSolverCtx(parent context.Context, sc SolverCfg, file string, timeoutS int) (string, string, float64) {
	args := sc.Args(file, timeoutS)
	ctx, cancel := context.WithTimeout(parent, time.Duration(timeoutS+5)*time.Second)
	defer cancel()
	cmd := exec.CommandContext(ctx, args[0], args[1:]...)
	var out bytes.Buffer
	cmd.Stdout = &out
	cmd.Stderr = &out
	t0 := time.Now()
	_ = cmd.Run()
	el := time.Since(t0).Seconds()
	o := out.String()
	for _, ln := range strings.Split(o, "\n") {
		ln = strings.TrimSpace(ln)
		if ln == "" || strings.HasPrefix(ln, "WARNING") || strings.HasPrefix(ln, ";") {
			continue
		}
		switch ln {
		case "sat", "unsat", "unknown":
			return ln, o, el
		}
		break
	}
	if strings.Contains(o, "timeout") {
		return "timeout", o, el
	}
	return "error", o, el
}

// discharge runs every obligation; tier decides time limits and cross-checking.
func discharge(obs []*Obligation, scratch string, tier string, seed int) {
	timeout := 25 // quick tier: 25 s per raced obligation (10 s made obligations that need 2-4 s alone flaky when 32 solver processes share 16 cores)
	if tier == "thorough" {
		timeout = 60
	}
	order := solvers
	var wg sync.WaitGroup
	sem := make(chan struct{}, 16)
	raceSem := make(chan struct{}, 4) // 4 races x 4 configurations: one process per core
	for idx, ob := range obs {
		wg.Add(1)
		go func(idx int, ob *Obligation) {
			defer wg.Done()
			sem <- struct{}{}
			defer func() { <-sem }()
			if ob.Result != "" {
				return // decided inline during symbolic execution (consistency covers)
			}
			file := filepath.Join(scratch, fmt.Sprintf("ob%05d.smt2", idx))
			if err := os.WriteFile(file, []byte(ob.Script), 0o644); err != nil {
				ob.Result, ob.Output = "error", err.Error()
				return
			}
			total := 0.0
			if ob.Expect != "unsat" {
				// covers: only a model (sat) or a refutation (unsat) matters; unknown counts as reachable, so one
				// model-finding configuration with a short limit is enough
				r, out, el := runSolver(solvers[1], file, 5)
				ob.Result, ob.Solver, ob.Output, ob.Seconds = r, solvers[1].Name, out, el
				os.Remove(file)
				return
			}
			// stage 1: the e-matching configuration with a short limit decides most obligations at once;
			// stage 2: all configurations race with the full limit (the first definite answer wins)
			r, out, el := runSolver(order[0], file, 2)
			total += el
			if r == "sat" || r == "unsat" {
				ob.Result, ob.Solver, ob.Output = r, order[0].Name, out
			} else {
				<-sem // do not hold a stage-1 slot while racing
				raceSem <- struct{}{}
				r, out, name, el := raceSolvers(order, file, timeout)
				<-raceSem
				sem <- struct{}{}
				total += el
				ob.Result, ob.Solver, ob.Output = r, name, out
			}
			ob.Seconds = total
			if tier == "thorough" && ob.Result == "unsat" && ob.Expect == "unsat" {
				// second opinion where another solver accepts the query
				for _, sc := range order {
					if sc.Name == ob.Solver {
						continue
					}
					r, out, el := runSolver(sc, file, timeout)
					ob.Seconds += el
					if r == "sat" {
						ob.Result, ob.Output = "disagree", "solver disagreement: "+ob.Solver+" unsat, "+sc.Name+" sat\n"+out
					}
					if r == "unsat" || r == "sat" {
						ob.Solver += "+" + sc.Name
						break
					}
				}
			}
			if ob.Result == ob.Expect || ob.Expect == "sat-any" {
				os.Remove(file)
			}
		}(idx, ob)
	}
	wg.Wait()
}
