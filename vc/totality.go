package main

import (
	"encoding/json"
	"fmt"
	"go/token"
	"go/types"
	"os"
	"path/filepath"
	"sort"
	"strings"

	"golang.org/x/tools/go/ssa"
)

// ---------------------------------------------------------------------------------------------
// C07 (containment): every entry point through which a driver or a goroutine runs NilAway code converts an internal
// panic into a value: an analyzer's Run is WrapRun(f) or defers a recovering closure in its entry block; WrapRun's
// wrapper and every goroutine body do the same.  Entry points without protection must be in the committed baseline
// (/verif/spec/c07_unprotected.json, an assumption list with reasons); a new one is a violation.
// ---------------------------------------------------------------------------------------------

func hasRecoveringDefer(fn *ssa.Function) bool {
	if fn == nil || len(fn.Blocks) == 0 {
		return false
	}
	var defers []*ssa.Defer
	for _, b := range fn.Blocks {
		for _, in := range b.Instrs {
			if d, ok := in.(*ssa.Defer); ok {
				// the defer must be registered before any module code runs: its block dominates every call of a
				// non-builtin function and every normal return
				dom := true
				for _, ob := range fn.Blocks {
					if ob == fn.Recover {
						continue
					}
					for _, oi := range ob.Instrs {
						switch c := oi.(type) {
						case *ssa.Return:
							if !b.Dominates(ob) {
								dom = false
							}
						case *ssa.Call:
							if _, isB := c.Common().Value.(*ssa.Builtin); !isB && ob != b && !b.Dominates(ob) {
								dom = false
							}
						}
					}
				}
				if dom {
					defers = append(defers, d)
				}
			}
		}
	}
	for _, d := range defers {
		mc, ok := d.Common().Value.(*ssa.MakeClosure)
		if !ok {
			continue
		}
		cl := mc.Fn.(*ssa.Function)
		for _, b := range cl.Blocks {
			for _, ci := range b.Instrs {
				if c, ok := ci.(*ssa.Call); ok {
					if bi, ok := c.Common().Value.(*ssa.Builtin); ok && bi.Name() == "recover" {
						return true
					}
				}
			}
		}
	}
	return false
}

func containmentObligations(L *Loaded, db *ContractDB, rep *Report) {
	allowed := map[string]string{}
	if b, err := os.ReadFile(filepath.Join(rep.verifDir, "spec", "c07_unprotected.json")); err == nil {
		var f struct {
			Unprotected map[string]string `json:"unprotected"`
		}
		if json.Unmarshal(b, &f) == nil {
			allowed = f.Unprotected
		}
	}
	var obs []StructOb
	nAnalyzers := 0
	var inits []*ssa.Function
	for path, sp := range L.SSA {
		if strings.HasPrefix(path, modPath) && !strings.HasPrefix(path, modPath+"/nilawaytest") && !strings.HasPrefix(path, modPath+"/tools") {
			if f := sp.Func("init"); f != nil {
				inits = append(inits, f)
			}
		}
	}
	sort.Slice(inits, func(i, j int) bool { return inits[i].Pkg.Pkg.Path() < inits[j].Pkg.Pkg.Path() })
	for _, fn := range inits {
		for _, b := range fn.Blocks {
			for _, in := range b.Instrs {
				st, ok := in.(*ssa.Store)
				if !ok {
					continue
				}
				fa, ok := st.Addr.(*ssa.FieldAddr)
				if !ok {
					continue
				}
				bt := fa.X.Type().Underlying().(*types.Pointer).Elem()
				s, name, ok := structOf(bt)
				if !ok || !strings.HasSuffix(name, "analysis.Analyzer") || s.Field(fa.Field).Name() != "Run" {
					continue
				}
				nAnalyzers++
				pkg := fnPkg(fn).Path()
				obName := "C07/analyzer-entry-contains-panics/" + strings.TrimPrefix(pkg, modPath+"/")
				protected, how := false, ""
				v := st.Val
				if ct, ok := v.(*ssa.ChangeType); ok {
					v = ct.X
				}
				switch r := v.(type) {
				case *ssa.Call:
					if c := r.Common().StaticCallee(); c != nil && strings.HasSuffix(calleeKey(c), "analysishelper.WrapRun") {
						protected, how = true, "Run is analysishelper.WrapRun(run)"
					}
				case *ssa.Function:
					if hasRecoveringDefer(r) {
						protected, how = true, "run defers a recovering closure in its entry block"
					} else {
						how = "Run is " + shortKey(r.RelString(nil)) + " without recover"
					}
				case *ssa.MakeClosure:
					if hasRecoveringDefer(r.Fn.(*ssa.Function)) {
						protected, how = true, "closure defers a recovering closure"
					}
				}
				if !protected {
					if why, ok := allowed[pkg]; ok {
						rep.Assum["analyzer entry point without panic containment (baseline): "+pkg+" -- "+why] = true
						continue
					}
				}
				obs = append(obs, StructOb{Name: obName, OK: protected, Detail: how, Src: L.pos(st.Pos())})
			}
		}
	}
	// WrapRun's wrapper recovers
	for _, fn := range L.AllFns {
		if strings.HasSuffix(normKey(fn.RelString(nil)), "analysishelper.WrapRun$1") {
			obs = append(obs, StructOb{Name: "C07/WrapRun-wrapper-recovers", OK: hasRecoveringDefer(fn), Detail: "the wrapper defers a recovering closure in its entry block", Src: L.pos(fn.Pos())})
		}
	}
	// goroutine bodies recover (directly or in the single module function they call)
	for _, e := range goroutineEntries(L) {
		ok := hasRecoveringDefer(e)
		callsOnlyWaiter := false
		if !ok {
			for _, b := range e.Blocks {
				for _, in := range b.Instrs {
					if c, isCall := in.(*ssa.Call); isCall {
						if f := c.Common().StaticCallee(); f != nil {
							if fnPkg(f) != nil && strings.HasPrefix(fnPkg(f).Path(), modPath) && hasRecoveringDefer(f) {
								ok = true
							}
							if calleeKey(f) == "(*sync.WaitGroup).Wait" {
								callsOnlyWaiter = true
							}
						}
					}
				}
			}
		}
		if !ok && callsOnlyWaiter {
			ok = true // wg.Wait(); close(ch): no NilAway code runs in it
		}
		obs = append(obs, StructOb{Name: "C07/goroutine-contains-panics/" + shortKey(normKey(e.RelString(nil))), OK: ok, Detail: "the goroutine body (or the module function it calls) defers a recovering closure", Src: L.pos(e.Pos())})
	}
	// size / nil guards before a function is analysed: the spawn of analyzeFunc is dominated by the three guards
	obs = append(obs, guardDominance(L)...)
	obs = append(obs, StructOb{Name: "C07/analyzers-enumerated", OK: nAnalyzers >= 10, Detail: fmt.Sprintf("%d analysis.Analyzer literals found", nAnalyzers)})
	rep.addStruct(obs, "containment")
	rep.Assum["absence of internal panics and convergence within the round bound for every Go package are not decided (the round bound is a watchdog)"] = true
}

// guardDominance: in function.run, the goroutine that analyses a function is only started when the declaration has
// a body, ctrlflow produced a CFG, and the CFG has at most _maxFuncSizeInCFGBlocks blocks.
func guardDominance(L *Loaded) []StructOb {
	var run *ssa.Function
	for _, fn := range L.AllFns {
		if normKey(fn.RelString(nil)) == modPath+"/assertion/function.run" {
			run = fn
		}
	}
	if run == nil {
		return []StructOb{{Name: "C07/function.run/spawn-guards", OK: false, Detail: "function.run not found"}}
	}
	var spawn *ssa.BasicBlock
	for _, b := range run.Blocks {
		for _, in := range b.Instrs {
			if c, ok := in.(*ssa.Call); ok {
				if f := c.Common().StaticCallee(); f != nil && calleeKey(f) == "(*sync.WaitGroup).Go" {
					spawn = b
				}
			}
		}
	}
	if spawn == nil {
		return []StructOb{{Name: "C07/function.run/spawn-guards", OK: false, Detail: "no wg.Go call in function.run"}}
	}
	type guard struct {
		name string
		ok   bool
	}
	gs := []*guard{{name: "body-not-nil"}, {name: "cfg-not-nil"}, {name: "cfg-size-within-limit"}}
	for _, b := range run.Blocks {
		if len(b.Instrs) == 0 {
			continue
		}
		ifI, ok := b.Instrs[len(b.Instrs)-1].(*ssa.If)
		if !ok {
			continue
		}
		bo, ok := ifI.Cond.(*ssa.BinOp)
		if !ok {
			continue
		}
		// which successor is the "continue the analysis" side
		cont := func(skipOnTrue bool) *ssa.BasicBlock {
			if skipOnTrue {
				return b.Succs[1]
			}
			return b.Succs[0]
		}
		isNil := func(v ssa.Value) bool { c, ok := v.(*ssa.Const); return ok && c.Value == nil }
		switch {
		case bo.Op == token.EQL && isNil(bo.Y) && strings.Contains(bo.X.Type().String(), "BlockStmt"):
			if cont(true).Dominates(spawn) {
				gs[0].ok = true
			}
		case bo.Op == token.EQL && isNil(bo.Y) && strings.HasSuffix(bo.X.Type().String(), "cfg.CFG"):
			if cont(true).Dominates(spawn) {
				gs[1].ok = true
			}
		case bo.Op == token.GTR:
			if c, ok := bo.Y.(*ssa.Const); ok && c.Value != nil && c.Value.ExactString() == "500" {
				if cont(true).Dominates(spawn) {
					gs[2].ok = true
				}
			}
		}
	}
	var obs []StructOb
	for _, g := range gs {
		obs = append(obs, StructOb{Name: "C07/function.run/spawn-guarded-by/" + g.name, OK: g.ok, Detail: "the block that starts the per-function goroutine is dominated by the passing side of this guard", Src: L.pos(spawn.Instrs[0].Pos())})
	}
	return obs
}
