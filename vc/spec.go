package main

import (
	"runtime"
	"os"
	"fmt"
	"go/ast"
	"go/constant"
	"go/token"
	"go/types"
	"strconv"
	"strings"

	"golang.org/x/tools/go/ssa"
)

// Env is the evaluation environment of a specification expression.
type Env struct {
	vars    map[string]Val
	st      *State
	heaps   map[string]string
	epoch   int
	now     string
	oheaps  map[string]string
	oepoch  int
	onow    string
	pkg     string
	at      token.Pos
	fr      *Frame
	results []Val
	depth   int
	lheaps  map[string]string // heap view at the enclosing loop head (step assertions)
	cheaps  map[string]string // heap view right before the call a ghost assert follows
	cepoch  int
	cnow    string
	lepoch  int
	lnow    string
	llocals map[string]Val
}

func (e *Env) child() *Env {
	n := *e
	n.vars = make(map[string]Val, len(e.vars)+2)
	for k, v := range e.vars {
		n.vars[k] = v
	}
	return &n
}

func (e *Env) inOld() *Env {
	n := *e
	n.heaps, n.epoch, n.now = e.oheaps, e.oepoch, e.onow
	return &n
}

type specError struct{ msg string }

func (x *Exec) specFail(f string, a ...any) {
	if os.Getenv("VC_DEBUG_SPEC") != "" {
		fmt.Fprintf(os.Stderr, "specFail: "+f+"\n", a...)
	}
	panic(specError{fmt.Sprintf(f, a...)})
}

// specEnv builds the environment for the top frame function: params, locals, old = frame entry.
func (x *Exec) specEnv(st *State, fr *Frame, results []Val) *Env {
	e := &Env{vars: map[string]Val{}, st: st, heaps: st.heaps, epoch: st.epoch, now: st.now, oheaps: fr.oldHeap, oepoch: 0, onow: fr.oldNow, fr: fr, results: results}
	e.pkg = ""
	if p := fnPkg(fr.fn); p != nil {
		e.pkg = p.Path()
	}
	e.at = bodyPos(fr.fn)
	for _, p := range fr.fn.Params {
		e.vars[p.Name()] = fr.vals[p]
	}
	for _, fv := range fr.fn.FreeVars {
		if v, ok := fr.vals[fv]; ok {
			// a captured variable is a cell; specifications refer to its contents
			v.Loc = x.locOf(v)
			v.Rng = &Val{S: "addr"}
			e.vars[fv.Name()] = v
		}
	}
	return e
}

func (x *Exec) evalBool(st *State, sx *SX, env *Env) (out string) {
	defer func() {
		if r := recover(); r != nil {
			if se, ok := r.(specError); ok {
				x.errs = append(x.errs, fmt.Sprintf("%s: spec error in %s: %s", x.funcKeyOf(x.fn), sx.String(), se.msg))
				out = "false"
				return
			}
			if re, ok := r.(runtime.Error); ok {
				// an ill-typed term (e.g. a name that no longer denotes a local of the function): unevaluable, not a crash
				x.errs = append(x.errs, fmt.Sprintf("%s: spec error in %s: cannot be evaluated (%v)", x.funcKeyOf(x.fn), sx.String(), re))
				out = "false"
				return
			}
			panic(r)
		}
	}()
	v := x.eval(sx, env)
	x.wfView(env)
	x.wfView(env.inOld())
	return v.S
}

func (x *Exec) resolveType(env *Env, s string) types.Type {
	switch s {
	case "Int":
		return types.Typ[types.Int]
	case "Bool":
		return types.Typ[types.Bool]
	case "Str":
		return types.Typ[types.String]
	case "Iface":
		return types.NewInterfaceType(nil, nil)
	}
	t, err := x.L.evalType(env.pkg, env.at, s)
	if err != nil {
		x.specFail("cannot resolve type %q: %v", s, err)
	}
	return t
}

func (x *Exec) smtSortName(env *Env, s string) (string, types.Type) {
	switch s {
	case "Int", "Bool", "Str", "Slice", "Iface":
		var t types.Type
		switch s {
		case "Int":
			t = types.Typ[types.Int]
		case "Bool":
			t = types.Typ[types.Bool]
		case "Str":
			t = types.Typ[types.String]
		}
		return s, t
	}
	if strings.HasPrefix(s, "(keyof ") || strings.HasPrefix(s, "(elemof ") || strings.HasPrefix(s, "(typeof ") {
		sx, err := parseSX(s)
		if err != nil {
			x.specFail("bad sort %s", s)
		}
		v := x.eval(sx.List[1], env)
		if v.T == nil {
			x.specFail("sort of untyped term in %s", s)
		}
		t := v.T
		switch sx.Head() {
		case "keyof":
			m, ok := types.Unalias(t).Underlying().(*types.Map)
			if !ok {
				x.specFail("keyof non-map in %s", s)
			}
			t = m.Key()
		case "elemof":
			t = elemTypeOf(t)
		}
		return x.so.sortOf(t), t
	}
	if strings.HasPrefix(s, "(") {
		return s, nil // raw SMT sort
	}
	t := x.resolveType(env, s)
	return x.so.sortOf(t), t
}

func (x *Exec) load(env *Env, l *Loc) string {
	return x.pathGet(x.baseLoad(env.heaps, env.epoch, l), l.Path)
}

// wfView adds well-formedness facts for every heap version visible in the view of env.
func (x *Exec) wfView(env *Env) {
	if env.st == nil {
		return
	}
	for name, sort := range x.heapSo {
		if !(strings.HasPrefix(name, "H:") || strings.HasPrefix(name, "E:") || strings.HasPrefix(name, "MV:")) {
			continue
		}
		sym := heapSymIn(x, env.heaps, env.epoch, name, sort)
		x.wellFormed(env.st, name, sort, sym, env.now)
	}
}

// field access through pointers on a typed value
func (x *Exec) specField(env *Env, v Val, name string) Val {
	r, ok := x.tryField(env, v, name)
	if !ok {
		x.specFail("type %s has no field %s", typeStr(v.T), name)
	}
	return r
}

func (x *Exec) tryField(env *Env, v Val, name string) (Val, bool) {
	if v.T == nil {
		x.specFail("field %s of untyped term %s", name, v.S)
	}
	v = x.readVar(env, v)
	t := types.Unalias(v.T)
	if pt, ok := t.Underlying().(*types.Pointer); ok {
		l := x.locOf(v)
		v = Val{S: x.load(env, l), T: pt.Elem()}
		t = types.Unalias(v.T)
	}
	st, sname, ok := structOf(t)
	if !ok {
		return Val{}, false
	}
	x.so.sortOf(t)
	for i := 0; i < st.NumFields(); i++ {
		if st.Field(i).Name() == name {
			return Val{S: fmt.Sprintf("(%s %s)", x.so.selName(sname, name, i), v.S), T: st.Field(i).Type()}, true
		}
	}
	for i := 0; i < st.NumFields(); i++ {
		if st.Field(i).Embedded() {
			inner := Val{S: fmt.Sprintf("(%s %s)", x.so.selName(sname, st.Field(i).Name(), i), v.S), T: st.Field(i).Type()}
			if r, ok := x.tryField(env, inner, name); ok {
				return r, true
			}
		}
	}
	return Val{}, false
}

func (x *Exec) lookupVar(env *Env, name string) (Val, bool) {
	if v, ok := env.vars[name]; ok {
		return v, true
	}
	if env.fr != nil {
		if v, ok := env.fr.locals[name]; ok {
			return v, true
		}
	}
	if name == "result" && len(env.results) >= 1 {
		return env.results[0], true
	}
	if strings.HasPrefix(name, "result") {
		if n, err := strconv.Atoi(name[6:]); err == nil && n < len(env.results) {
			return env.results[n], true
		}
	}
	if env.st != nil {
		if v, ok := env.st.ghost[name]; ok {
			return v, true
		}
	}
	return Val{}, false
}

// readVar dereferences address-taken locals.
func (x *Exec) readVar(env *Env, v Val) Val {
	if v.Loc != nil && v.Rng != nil && v.Rng.S == "addr" {
		return Val{S: x.load(env, v.Loc), T: v.Loc.typeAt()}
	}
	return v
}

func (x *Exec) atomVal(env *Env, a string) Val {
	if a == "true" || a == "false" {
		return Val{S: a, T: types.Typ[types.Bool]}
	}
	if a == "nil" {
		return Val{S: "0", T: types.Typ[types.UntypedNil]}
	}
	if _, err := strconv.Atoi(a); err == nil {
		if strings.HasPrefix(a, "-") {
			return Val{S: "(- " + a[1:] + ")", T: types.Typ[types.Int]}
		}
		return Val{S: a, T: types.Typ[types.Int]}
	}
	if strings.HasPrefix(a, "\"") {
		s, err := strconv.Unquote(a)
		if err != nil {
			x.specFail("bad string %s", a)
		}
		return Val{S: x.so.strConst(s), T: types.Typ[types.String]}
	}
	if strings.HasPrefix(a, "|") {
		return Val{S: a}
	}
	if v, ok := x.lookupVar(env, a); ok {
		return x.readVar(env, v)
	}
	// dotted path x.f.g
	if i := strings.Index(a, "."); i > 0 {
		if v, ok := x.lookupVar(env, a[:i]); ok {
			v = x.readVar(env, v)
			for _, f := range strings.Split(a[i+1:], ".") {
				v = x.specField(env, v, f)
			}
			return v
		}
		// Go constant such as token.EQL
		if env.pkg != "" {
			if tv, err := x.L.evalExpr(env.pkg, env.at, a); err == nil && tv.Value != nil {
				return x.constTV(tv)
			}
		}
	} else if env.pkg != "" && a != "" && (a[0] >= 'A' && a[0] <= 'Z' || a[0] == '_' || a[0] >= 'a' && a[0] <= 'z') {
		if tv, err := x.L.evalExpr(env.pkg, env.at, a); err == nil && tv.Value != nil {
			return x.constTV(tv)
		}
	}
	// plain SMT symbol
	return Val{S: a}
}

func (x *Exec) constTV(tv types.TypeAndValue) Val {
	switch tv.Value.Kind() {
	case constant.Int:
		s := tv.Value.ExactString()
		if strings.HasPrefix(s, "-") {
			s = "(- " + s[1:] + ")"
		}
		return Val{S: s, T: tv.Type}
	case constant.Bool:
		return Val{S: fmt.Sprint(constant.BoolVal(tv.Value)), T: tv.Type}
	case constant.String:
		return Val{S: x.so.strConst(constant.StringVal(tv.Value)), T: tv.Type}
	}
	x.specFail("unsupported constant kind")
	return Val{}
}

func (x *Exec) eval(sx *SX, env *Env) Val {
	if !sx.IsL {
		return x.atomVal(env, sx.Atom)
	}
	if len(sx.List) == 0 {
		x.specFail("empty list")
	}
	head := sx.Head()
	args := sx.List[1:]
	ev := func(i int) Val { return x.eval(args[i], env) }
	switch head {
	case "old":
		return x.eval(args[0], env.inOld())
	case "athead":
		if env.llocals == nil {
			x.specFail("athead outside a loop step assertion")
		}
		v, ok := env.llocals[args[0].Atom]
		if !ok {
			x.specFail("no local %s at the loop head", args[0].Atom)
		}
		return v
	case "atcall":
		// (atcall e): e in the state right before the call this ghost assert follows
		if env.cheaps == nil {
			x.specFail("atcall outside a ghost assert")
		}
		n := *env
		n.heaps, n.epoch, n.now = env.cheaps, env.cepoch, env.cnow
		return x.eval(args[0], &n)
	case "atloop":
		if env.lheaps == nil {
			x.specFail("atloop outside a loop step assertion")
		}
		n := *env
		n.heaps, n.epoch, n.now = env.lheaps, env.lepoch, env.lnow
		return x.eval(args[0], &n)
	case "forall", "exists":
		ne := env.child()
		var binds []string
		for _, b := range args[0].List {
			name := b.List[0].Atom
			sort, t := x.smtSortName(env, b.List[1].String())
			bn := name + "?" + strconv.Itoa(x.nextN())
			ne.vars[name] = Val{S: bn, T: t}
			binds = append(binds, fmt.Sprintf("(%s %s)", bn, sort))
		}
		body := x.eval(args[1], ne)
		extra := ""
		for _, pat := range args[2:] {
			// (pattern t1 t2 ...)
			if pat.Head() == "pattern" {
				var ps []string
				for _, p := range pat.List[1:] {
					ps = append(ps, x.eval(p, ne).S)
				}
				extra += " :pattern (" + strings.Join(ps, " ") + ")"
			}
		}
		if extra == "" && head == "forall" && len(args[0].List) == 1 {
			extra = framePatterns(body.S, ne.vars[args[0].List[0].List[0].Atom].S)
		}
		if extra != "" {
			return Val{S: fmt.Sprintf("(%s (%s) (! %s%s))", head, strings.Join(binds, " "), body.S, extra), T: types.Typ[types.Bool]}
		}
		return Val{S: fmt.Sprintf("(%s (%s) %s)", head, strings.Join(binds, " "), body.S), T: types.Typ[types.Bool]}
	case "let":
		ne := env.child()
		var binds []string
		for _, b := range args[0].List {
			v := x.eval(b.List[1], ne)
			bn := b.List[0].Atom + "?" + strconv.Itoa(x.nextN())
			binds = append(binds, fmt.Sprintf("(%s %s)", bn, v.S))
			nv := v
			nv.S = bn
			ne.vars[b.List[0].Atom] = nv
		}
		body := x.eval(args[1], ne)
		return Val{S: fmt.Sprintf("(let (%s) %s)", strings.Join(binds, " "), body.S), T: body.T}
	case ".":
		v := ev(0)
		for _, f := range args[1:] {
			v = x.specField(env, v, f.Atom)
		}
		return v
	case "len", "cap":
		v := ev(0)
		if v.T == nil {
			x.specFail("len of untyped term")
		}
		switch u := types.Unalias(v.T).Underlying().(type) {
		case *types.Slice:
			if head == "cap" {
				return Val{S: fmt.Sprintf("(s.cap %s)", v.S), T: types.Typ[types.Int]}
			}
			return Val{S: fmt.Sprintf("(s.len %s)", v.S), T: types.Typ[types.Int]}
		case *types.Basic:
			return Val{S: fmt.Sprintf("(strlen %s)", v.S), T: types.Typ[types.Int]}
		case *types.Map:
			h := heapSymIn(x, env.heaps, env.epoch, mlName(u), "(Array Int Int)")
			return Val{S: fmt.Sprintf("(ite (= %s 0) 0 (select %s %s))", v.S, h, v.S), T: types.Typ[types.Int]}
		case *types.Array:
			return Val{S: fmt.Sprint(u.Len()), T: types.Typ[types.Int]}
		}
		x.specFail("len of %s", typeStr(v.T))
	case "idx":
		v, i := ev(0), ev(1)
		if v.T == nil {
			x.specFail("idx of untyped term")
		}
		switch u := types.Unalias(v.T).Underlying().(type) {
		case *types.Slice:
			h := heapSymIn(x, env.heaps, env.epoch, eName(u.Elem()), x.eSort(u.Elem()))
			return Val{S: fmt.Sprintf("(%s %s %s %s)", x.selFn(u.Elem()), h, v.S, i.S), T: u.Elem()}
		case *types.Array:
			return Val{S: fmt.Sprintf("(select %s %s)", v.S, i.S), T: u.Elem()}
		}
		x.specFail("idx of %s", typeStr(v.T))
	case "mapin", "mapget":
		m, k := ev(0), ev(1)
		if m.T == nil {
			x.specFail("%s of untyped term %s", head, args[0].String())
		}
		mt, ok := types.Unalias(m.T).Underlying().(*types.Map)
		if !ok {
			x.specFail("%s of non-map", head)
		}
		ks, vs := x.so.sortOf(mt.Key()), x.so.sortOf(mt.Elem())
		if head == "mapin" {
			h := heapSymIn(x, env.heaps, env.epoch, mdName(mt), fmt.Sprintf("(Array Int (Array %s Bool))", ks))
			return Val{S: fmt.Sprintf("(and (not (= %s 0)) (select (select %s %s) %s))", m.S, h, m.S, k.S), T: types.Typ[types.Bool]}
		}
		h := heapSymIn(x, env.heaps, env.epoch, mvName(mt), fmt.Sprintf("(Array Int (Array %s %s))", ks, vs))
		return Val{S: fmt.Sprintf("(select (select %s %s) %s)", h, m.S, k.S), T: mt.Elem()}
	case "deref":
		v := ev(0)
		if v.T == nil && v.Loc == nil {
			x.specFail("deref of untyped value %s", args[0].String())
		}
		l := x.locOf(v)
		return Val{S: x.load(env, l), T: l.typeAt()}
	case "is":
		v := ev(0)
		t := x.resolveType(env, args[1].String())
		if types.IsInterface(t) {
			return Val{S: fmt.Sprintf("(%s (i.tag %s))", x.ifacePred(t), v.S), T: types.Typ[types.Bool]}
		}
		return Val{S: fmt.Sprintf("(= (i.tag %s) %d)", v.S, x.so.tagOf(t)), T: types.Typ[types.Bool]}
	case "as":
		v := ev(0)
		t := x.resolveType(env, args[1].String())
		return Val{S: x.so.unbox(t, fmt.Sprintf("(i.val %s)", v.S)), T: t}
	case "iface":
		t := x.resolveType(env, args[0].String())
		v := ev(1)
		b, fact := x.so.box(t, v.S)
		if fact != "" && env.st != nil {
			x.assume(env.st, fact)
		}
		return Val{S: fmt.Sprintf("(mk_iface %d %s)", x.so.tagOf(t), b), T: types.NewInterfaceType(nil, nil)}
	case "tagof":
		t := x.resolveType(env, args[0].String())
		return Val{S: fmt.Sprint(x.so.tagOf(t)), T: types.Typ[types.Int]}
	case "isnil":
		v := ev(0)
		if v.T != nil {
			switch x.so.sortOf(v.T) {
			case "Iface":
				return Val{S: fmt.Sprintf("(= (i.tag %s) 0)", v.S), T: types.Typ[types.Bool]}
			case "Slice":
				return Val{S: fmt.Sprintf("(= (s.arr %s) 0)", v.S), T: types.Typ[types.Bool]}
			}
		}
		return Val{S: fmt.Sprintf("(= %s 0)", v.S), T: types.Typ[types.Bool]}
	case "heap-unchanged":
		var parts []string
		for _, a := range args {
			for _, hn := range x.modItemHeaps(a.String(), env) {
				sort := x.heapSo[hn]
				if sort == "" {
					continue
				}
				parts = append(parts, fmt.Sprintf("(= %s %s)", heapSymIn(x, env.heaps, env.epoch, hn, sort), heapSymIn(x, env.oheaps, env.oepoch, hn, sort)))
			}
		}
		return Val{S: "(and true " + strings.Join(parts, " ") + ")", T: types.Typ[types.Bool]}
	case "mapdom", "mapvals":
		m := ev(0)
		mt, ok := types.Unalias(m.T).Underlying().(*types.Map)
		if !ok {
			x.specFail("%s of non-map", head)
		}
		ks, vs := x.so.sortOf(mt.Key()), x.so.sortOf(mt.Elem())
		if head == "mapdom" {
			h := heapSymIn(x, env.heaps, env.epoch, mdName(mt), fmt.Sprintf("(Array Int (Array %s Bool))", ks))
			return Val{S: fmt.Sprintf("(select %s %s)", h, m.S)}
		}
		h := heapSymIn(x, env.heaps, env.epoch, mvName(mt), fmt.Sprintf("(Array Int (Array %s %s))", ks, vs))
		return Val{S: fmt.Sprintf("(select %s %s)", h, m.S)}
	case "fresh":
		v := ev(0)
		return Val{S: fmt.Sprintf("(>= (born %s) %s)", x.refOf(v), env.onow), T: types.Typ[types.Bool]}
	case "arrof":
		// (arrof s): the backing array (an object reference; 0 for the nil slice) of slice s
		v := ev(0)
		return Val{S: x.refOf(v), T: types.Typ[types.Int]}
	case "newinloop":
		// (newinloop x): x was allocated during the current loop iteration (since the loop head); step assertions only
		if env.lnow == "" {
			x.specFail("newinloop outside a loop step assertion")
		}
		v := ev(0)
		return Val{S: fmt.Sprintf("(>= (born %s) %s)", x.refOf(v), env.lnow), T: types.Typ[types.Bool]}
	case "old-now":
		return Val{S: env.onow, T: types.Typ[types.Int]}
	case "rowat":
		// (rowat s a): the whole backing array a of the element type of slice s
		v, a := ev(0), ev(1)
		sl, ok := types.Unalias(v.T).Underlying().(*types.Slice)
		if !ok {
			x.specFail("rowat of non-slice")
		}
		h := heapSymIn(x, env.heaps, env.epoch, eName(sl.Elem()), x.eSort(sl.Elem()))
		return Val{S: fmt.Sprintf("(select %s %s)", h, a.S)}
	case "allocated-before":
		v := ev(0)
		return Val{S: fmt.Sprintf("(< (born %s) %s)", x.refOf(v), env.onow), T: types.Typ[types.Bool]}
	case "allocated":
		v := ev(0)
		return Val{S: fmt.Sprintf("(< (born %s) %s)", x.refOf(v), env.now), T: types.Typ[types.Bool]}
	case "typed":
		t := x.resolveType(env, args[0].String())
		v := ev(1)
		v.T = t
		return v
	case "zero":
		_, t := x.smtSortName(env, args[0].String())
		if t == nil {
			x.specFail("zero of unknown type %s", args[0].String())
		}
		return Val{S: x.so.zero(t), T: t}
	case "global":
		// (global Name): value of a package-level variable of the current package
		obj := x.L.ByPath[env.pkg].Types.Scope().Lookup(args[0].Atom)
		gv, ok := obj.(*types.Var)
		if !ok {
			x.specFail("no package-level variable %s", args[0].Atom)
		}
		ref := x.so.globalRef(env.pkg + "." + gv.Name())
		l := &Loc{Ref: ref, BT: gv.Type()}
		return Val{S: x.load(env, l), T: gv.Type()}
	case "local":
		if env.fr != nil {
			if v, ok := env.fr.locals[args[0].Atom]; ok {
				return x.readVar(env, v)
			}
		}
		x.specFail("no local %s on this path", args[0].Atom)
	case "dyn":
		// (dyn last arg 0) | (dyn last res 0) | (dyn last fn) | (dyn count)
		if env.st == nil {
			x.specFail("dyn outside a path")
		}
		if args[0].Atom == "count" {
			return Val{S: fmt.Sprint(len(env.st.dyn)), T: types.Typ[types.Int]}
		}
		if len(env.st.dyn) == 0 {
			x.specFail("no dynamic call on this path")
		}
		var d DynCall
		if args[0].Atom == "last" {
			d = env.st.dyn[len(env.st.dyn)-1]
		} else {
			n, _ := strconv.Atoi(args[0].Atom)
			if n >= len(env.st.dyn) {
				x.specFail("no dynamic call %d", n)
			}
			d = env.st.dyn[n]
		}
		switch args[1].Atom {
		case "fn":
			return d.Fn
		case "arg":
			n, _ := strconv.Atoi(args[2].Atom)
			return d.Args[n]
		case "res":
			n, _ := strconv.Atoi(args[2].Atom)
			if d.Res.Tup != nil {
				return d.Res.Tup[n]
			}
			return d.Res
		}
	case "call":
		raw := strings.Trim(args[0].Atom, "|")
		key := normKey(canonKey(env.pkg, raw))
		fn := x.L.Funcs[key]
		if fn == nil {
			// a function of another (e.g. standard library) package given by its own key
			if f2 := x.L.Funcs[normKey(raw)]; f2 != nil {
				key, fn = normKey(raw), f2
			}
		}
		if fn == nil {
			x.specFail("call: unknown function %s", key)
		}
		sym := x.pureSym(key, fn, fn.Signature)
		parts := []string{sym}
		for i := 1; i < len(args); i++ {
			parts = append(parts, ev(i).S)
		}
		var rt types.Type
		if fn.Signature.Results().Len() == 1 {
			rt = fn.Signature.Results().At(0).Type()
		}
		if len(parts) == 1 {
			return Val{S: sym, T: rt}
		}
		return Val{S: "(" + strings.Join(parts, " ") + ")", T: rt}
	case "callarg":
		// (callarg "key" k n): n-th argument (receiver first) of the k-th call of the matching contracted function
		if env.st == nil {
			x.specFail("callarg outside a path")
		}
		k, _ := strconv.Unquote(args[0].Atom)
		var keys []string
		for ck := range env.st.callArgs {
			if strings.Contains(ck, k) {
				keys = append(keys, ck)
			}
		}
		if len(keys) != 1 {
			x.specFail("callarg %q matches %d called functions on this path", k, len(keys))
		}
		ci, _ := strconv.Atoi(args[1].Atom)
		ai, _ := strconv.Atoi(args[2].Atom)
		cs := env.st.callArgs[keys[0]]
		if ci >= len(cs) || ai >= len(cs[ci]) {
			x.specFail("callarg %q %d %d out of range", k, ci, ai)
		}
		return cs[ci][ai]
	case "mcall":
		// (mcall Method recv args...): the function symbol modelling an interface method declared 'method I M fn'
		recv := ev(1)
		if recv.T == nil || !types.IsInterface(recv.T) {
			x.specFail("mcall on a non-interface value")
		}
		mname := args[0].Atom
		it := types.Unalias(recv.T)
		obj, _, _ := types.LookupFieldOrMethod(it, false, nil, mname)
		fo, ok := obj.(*types.Func)
		if !ok {
			// unexported or package-qualified method: search the method set
			ms := types.NewMethodSet(it)
			for i := 0; i < ms.Len(); i++ {
				if ms.At(i).Obj().Name() == mname {
					fo, ok = ms.At(i).Obj().(*types.Func)
				}
			}
		}
		if !ok {
			x.specFail("no method %s on %s", mname, typeStr(it))
		}
		sig := fo.Type().(*types.Signature)
		sym := q(fmt.Sprintf("m:%s.%s#0", typeStr(recv.T), mname))
		ps := []string{"Iface"}
		as := []string{recv.S}
		for j := 2; j < len(args); j++ {
			ps = append(ps, x.so.sortOf(sig.Params().At(j-2).Type()))
			as = append(as, ev(j).S)
		}
		rt := sig.Results().At(0).Type()
		x.so.decl(sym, fmt.Sprintf("(declare-fun %s (%s) %s)", sym, strings.Join(ps, " "), x.so.sortOf(rt)))
		return Val{S: "(" + sym + " " + strings.Join(as, " ") + ")", T: rt}
	case "callres":
		if env.st == nil {
			x.specFail("callres outside a path")
		}
		k, _ := strconv.Unquote(args[0].Atom)
		var keys []string
		for ck := range env.st.callRes {
			if strings.Contains(ck, k) {
				keys = append(keys, ck)
			}
		}
		if len(keys) != 1 {
			x.specFail("callres %q matches %d called functions on this path", k, len(keys))
		}
		rs := env.st.callRes[keys[0]]
		v := rs[len(rs)-1]
		if len(args) > 1 {
			n, _ := strconv.Atoi(args[1].Atom)
			if v.Tup != nil {
				v = v.Tup[n]
			}
		}
		return v
	case "callresn":
		// (callresn "key" n): the result of the n-th (0-based) call of the one called function matching key
		if env.st == nil {
			x.specFail("callresn outside a path")
		}
		k, _ := strconv.Unquote(args[0].Atom)
		var keys []string
		for ck := range env.st.callRes {
			if strings.Contains(ck, k) {
				keys = append(keys, ck)
			}
		}
		if len(keys) != 1 {
			x.specFail("callresn %q matches %d called functions on this path", k, len(keys))
		}
		rs := env.st.callRes[keys[0]]
		n, _ := strconv.Atoi(args[1].Atom)
		if n < 0 || n >= len(rs) {
			x.specFail("callresn %q: call %d of %d", k, n, len(rs))
		}
		return rs[n]
	case "before":
		// (before "A" "B"): on this path some call matching A happens, and the first one precedes the first call matching B
		if env.st == nil {
			x.specFail("before outside a path")
		}
		a, _ := strconv.Unquote(args[0].Atom)
		b, _ := strconv.Unquote(args[1].Atom)
		ia, ib := -1, -1
		for i, k := range env.st.callLog {
			if ia < 0 && strings.Contains(k, a) {
				ia = i
			}
			if ib < 0 && strings.Contains(k, b) {
				ib = i
			}
		}
		ok := ia >= 0 && ib >= 0 && ia < ib
		return Val{S: fmt.Sprint(ok), T: types.Typ[types.Bool]}
	case "calls":
		// (calls "key") -> number of calls of a tracked function along this path
		if env.st == nil {
			x.specFail("calls outside a path")
		}
		k, _ := strconv.Unquote(args[0].Atom)
		n := 0
		for ck, c := range env.st.calls {
			if (strings.HasPrefix(ck, "effect:") || strings.HasPrefix(ck, "invoke:")) != (strings.HasPrefix(k, "effect:") || strings.HasPrefix(k, "invoke:")) {
				continue // effect/invoke counters are only matched by patterns that ask for them
			}
			if strings.Contains(ck, k) {
				n += c
			}
		}
		return Val{S: fmt.Sprint(n), T: types.Typ[types.Int]}
	}
	if m, ok := x.db.Macros[head]; ok {
		if len(args) != len(m.Params) {
			x.specFail("macro %s expects %d args", head, len(m.Params))
		}
		if env.depth > 40 {
			x.specFail("macro recursion too deep in %s", head)
		}
		ne := &Env{vars: map[string]Val{}, st: env.st, heaps: env.heaps, epoch: env.epoch, now: env.now, oheaps: env.oheaps, oepoch: env.oepoch, onow: env.onow, pkg: m.Pkg, fr: nil, results: nil, depth: env.depth + 1, lheaps: env.lheaps, lepoch: env.lepoch, lnow: env.lnow, llocals: env.llocals, cheaps: env.cheaps, cepoch: env.cepoch, cnow: env.cnow}
		if m.Pkg == "" {
			ne.pkg = env.pkg
			ne.at = env.at
		} else if m.Pkg == env.pkg {
			ne.at = env.at
		}
		for i, p := range m.Params {
			v := ev(i)
			if p.Type != "" {
				_, t := x.smtSortName(ne, p.Type)
				if t != nil {
					v.T = t
				}
			}
			ne.vars[p.Name] = v
		}
		return x.eval(m.Body, ne)
	}
	if head == "and" {
		// a conjunct that cannot be evaluated on this path (e.g. it mentions a call that did not happen) is false,
		// which only makes the enclosing obligation harder
		parts := []string{"and"}
		for i := range args {
			part := func() (out string) {
				defer func() {
					if r := recover(); r != nil {
						if _, ok := r.(specError); ok {
							out = "false"
							return
						}
						panic(r)
					}
				}()
				return ev(i).S
			}()
			parts = append(parts, part)
			if part == "false" {
				break
			}
		}
		if len(parts) == 1 {
			return Val{S: "true", T: types.Typ[types.Bool]}
		}
		return Val{S: "(" + strings.Join(parts, " ") + ")", T: types.Typ[types.Bool]}
	}
	if head == "=>" && len(args) == 2 {
		a := ev(0).S
		c := func() (out string) {
			defer func() {
				if r := recover(); r != nil {
					if _, ok := r.(specError); ok {
						out = "false" // an unevaluable consequent cannot be established on this path
						return
					}
					panic(r)
				}
			}()
			return ev(1).S
		}()
		return Val{S: "(=> " + a + " " + c + ")", T: types.Typ[types.Bool]}
	}
	// SMT passthrough
	parts := []string{sx.List[0].String()}
	if sx.List[0].IsL {
		parts[0] = x.evalRawHead(sx.List[0], env)
	}
	var last Val
	for i := range args {
		last = ev(i)
		parts = append(parts, last.S)
	}
	var t types.Type
	switch head {
	case "and", "or", "not", "=>", "=", "<", "<=", ">", ">=", "distinct", "xor":
		t = types.Typ[types.Bool]
	case "+", "-", "*", "div", "mod":
		t = types.Typ[types.Int]
	case "ite":
		t = last.T
	}
	return Val{S: "(" + strings.Join(parts, " ") + ")", T: t}
}

func (x *Exec) evalRawHead(sx *SX, env *Env) string {
	// e.g. (_ is mk) or (as const ...)
	return sx.String()
}

func (x *Exec) refOf(v Val) string {
	if v.T != nil {
		switch x.so.sortOf(v.T) {
		case "Slice":
			return fmt.Sprintf("(s.arr %s)", v.S)
		case "Iface":
			return fmt.Sprintf("(i.val %s)", v.S)
		}
	}
	return v.S
}


// bodyPos returns a position inside the function's body scope (so that type parameters and imports resolve).
func bodyPos(fn *ssa.Function) token.Pos {
	for fn.Parent() != nil {
		fn = fn.Parent()
	}
	if o := fn.Origin(); o != nil {
		fn = o
	}
	if fd, ok := fn.Syntax().(*ast.FuncDecl); ok && fd.Body != nil {
		return fd.Body.Lbrace + 1
	}
	return fn.Pos()
}


// framePatterns: a frame-shaped quantifier (forall o. born(o) < t => H'[o] = H[o]) must not be triggered by the
// allocation-time term born(o): every reference of the path would instantiate every frame, and the datatype theory
// then produces field terms whose own well-formedness facts produce new references (a matching loop). For one-variable
// quantifiers whose body mentions born(v), the heap reads indexed by v are given as the (alternative) patterns.
func framePatterns(body, v string) string {
	if !strings.Contains(body, "(born "+v+")") {
		return ""
	}
	sx, err := parseSX(body)
	if err != nil {
		return ""
	}
	seen := map[string]bool{}
	var pats []string
	var mentions func(t *SX) bool
	mentions = func(t *SX) bool {
		if !t.IsL {
			return t.Atom == v
		}
		for _, c := range t.List {
			if mentions(c) {
				return true
			}
		}
		return false
	}
	var walk func(t *SX)
	walk = func(t *SX) {
		if !t.IsL {
			return
		}
		if t.Head() == "select" && len(t.List) == 3 && !t.List[2].IsL && t.List[2].Atom == v && !mentions(t.List[1]) {
			k := t.String()
			for _, bad := range []string{"(ite ", "(and ", "(or ", "(not ", "(= ", "(=> ", "(< ", "(<= ", "(>= ", "(> ", "(let "} {
				if strings.Contains(k, bad) {
					return // not usable as a pattern
				}
			}
			if !seen[k] {
				seen[k] = true
				pats = append(pats, k)
			}
			return
		}
		for _, c := range t.List {
			walk(c)
		}
	}
	walk(sx)
	out := ""
	for _, p := range pats {
		out += " :pattern (" + p + ")"
	}
	return out
}
