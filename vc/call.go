package main

import (
	"strconv"
	"fmt"
	"go/token"
	"go/types"
	"sort"
	"strings"

	"golang.org/x/tools/go/ssa"
)

func (x *Exec) methodSpec(c *ssa.CallCommon) *MethodSpec {
	if !c.IsInvoke() {
		return nil
	}
	t := types.Unalias(c.Value.Type())
	name := types.TypeString(t, qualifier)
	if ms := x.db.Methods[name+"."+c.Method.Name()]; ms != nil {
		return ms
	}
	// method declared on an embedded interface
	if recv := c.Method.Type().(*types.Signature).Recv(); recv != nil {
		rn := types.TypeString(types.Unalias(recv.Type()), qualifier)
		if ms := x.db.Methods[rn+"."+c.Method.Name()]; ms != nil {
			return ms
		}
	}
	return nil
}

func (x *Exec) isAssumedPure(fn *ssa.Function) bool {
	p := fnPkg(fn)
	if p == nil {
		return false
	}
	return x.db.PurePkg[p.Path()]
}

func (x *Exec) inlinable(fn *ssa.Function) bool {
	if fn.Blocks == nil {
		return false
	}
	if fn.Parent() != nil {
		return true
	}
	if fc, _ := x.contractOf(fn); fc != nil && fc.Inline {
		return true
	}
	if fn.Synthetic != "" {
		return true
	}
	return x.autoInline(fn)
}

// autoInline: small loop-free leaf functions of the module without a contract are inlined.
func (x *Exec) autoInline(fn *ssa.Function) bool {
	p := fnPkg(fn)
	if p == nil || !strings.HasPrefix(p.Path(), modPath) {
		return false
	}
	if fc, _ := x.contractOf(fn); fc != nil {
		return false
	}
	if len(fn.Blocks) > 4 {
		return false
	}
	n := 0
	for _, b := range fn.Blocks {
		for _, s := range b.Succs {
			if s.Dominates(b) {
				return false
			}
		}
		for _, in := range b.Instrs {
			if _, isDbg := in.(*ssa.DebugRef); !isDbg {
				n++
			}
			switch c := in.(type) {
			case *ssa.Call:
				if _, ok := c.Common().Value.(*ssa.Builtin); !ok {
					callee := c.Common().StaticCallee()
					if callee == nil {
						return false
					}
					if !x.isAssumedPure(callee) {
						if x.inlineDepth > 1 {
							return false
						}
						x.inlineDepth++
						ok := x.autoInline(callee)
						x.inlineDepth--
						if !ok {
							if fc, _ := x.contractOf(callee); fc == nil {
								return false
							}
						}
					}
				}
			case *ssa.Go, *ssa.Defer, *ssa.Select:
				return false
			}
		}
	}
	return n <= 30
}

// paramNames returns receiver+parameter names of a callee.
func paramNames(fn *ssa.Function, sig *types.Signature) []string {
	o := fn
	if fn.Origin() != nil {
		o = fn.Origin()
	}
	var names []string
	if len(o.Params) > 0 {
		for _, p := range o.Params {
			names = append(names, p.Name())
		}
		return names
	}
	if r := sig.Recv(); r != nil {
		n := r.Name()
		if n == "" || n == "_" {
			n = "recv"
		}
		names = append(names, n)
	}
	for i := 0; i < sig.Params().Len(); i++ {
		n := sig.Params().At(i).Name()
		if n == "" || n == "_" {
			n = fmt.Sprintf("arg%d", i)
		}
		names = append(names, n)
	}
	return names
}

func paramTypes(sig *types.Signature) []types.Type {
	var ts []types.Type
	if r := sig.Recv(); r != nil {
		ts = append(ts, r.Type())
	}
	for i := 0; i < sig.Params().Len(); i++ {
		ts = append(ts, sig.Params().At(i).Type())
	}
	return ts
}

// dummyResults gives typed placeholders for result, result0.. so that modifies items may name the heaps of what a
// function returns (only the types matter when a modifies item is resolved to heap names).
func dummyResults(sig *types.Signature) []Val {
	var out []Val
	for i := 0; i < sig.Results().Len(); i++ {
		out = append(out, Val{S: "0", T: sig.Results().At(i).Type()})
	}
	return out
}

// modHeapNames resolves one modifies item to heap names.
func (x *Exec) modItemHeaps(item string, env *Env) []string {
	if strings.HasPrefix(item, "(") {
		sx, err := parseSX(item)
		if err != nil {
			x.specFail("bad modifies item %s", item)
		}
		v := x.eval(sx.List[1], env)
		if v.T == nil {
			x.specFail("untyped modifies item %s", item)
		}
		switch sx.Head() {
		case "obj":
			pt, ok := types.Unalias(v.T).Underlying().(*types.Pointer)
			if !ok {
				x.specFail("obj of non-pointer in %s", item)
			}
			if a, ok := isArray(pt.Elem()); ok {
				return []string{eName(a.Elem())}
			}
			return []string{hName(pt.Elem())}
		case "elems":
			sl, ok := types.Unalias(v.T).Underlying().(*types.Slice)
			if !ok {
				x.specFail("elems of non-slice in %s", item)
			}
			return []string{eName(sl.Elem())}
		case "map":
			m, ok := types.Unalias(v.T).Underlying().(*types.Map)
			if !ok {
				x.specFail("map of non-map in %s", item)
			}
			return []string{mdName(m), mvName(m), mlName(m)}
		}
		x.specFail("unknown modifies form %s", item)
	}
	// type string: H heap of that type; "[]T" means element heap of T; "map[K]V" the map heaps
	t := x.resolveType(env, item)
	switch u := types.Unalias(t).Underlying().(type) {
	case *types.Slice:
		if _, named := types.Unalias(t).(*types.Named); !named {
			return []string{eName(u.Elem())}
		}
	case *types.Map:
		if _, named := types.Unalias(t).(*types.Named); !named {
			return []string{mdName(u), mvName(u), mlName(u)}
		}
	case *types.Array:
		return []string{eName(u.Elem())}
	}
	return []string{hName(t)}
}

func (x *Exec) modHeapNames(item string, callee *ssa.Function, c *ssa.CallCommon) []string {
	// static approximation used for loop frames: evaluate with typed dummy params
	env := &Env{vars: map[string]Val{}, heaps: map[string]string{}, oheaps: map[string]string{}}
	if p := fnPkg(callee); p != nil {
		env.pkg = p.Path()
	}
	o := callee
	if callee.Origin() != nil {
		o = callee.Origin()
	}
	env.at = bodyPos(o)
	sig := callee.Signature
	names := paramNames(callee, sig)
	pts := paramTypes(sig)
	for i, n := range names {
		if i < len(pts) {
			env.vars[n] = Val{S: "0", T: pts[i]}
		}
	}
	for _, fv := range o.FreeVars {
		if pt, ok := types.Unalias(fv.Type()).Underlying().(*types.Pointer); ok {
			env.vars[fv.Name()] = Val{S: "0", T: pt.Elem()}
		}
	}
	env.results = dummyResults(sig)
	var out []string
	func() {
		defer func() {
			if r := recover(); r != nil {
				if se, ok := r.(specError); ok {
					x.errs = append(x.errs, "modifies: "+se.msg)
					return
				}
				panic(r)
			}
		}()
		out = x.modItemHeaps(item, env)
	}()
	return out
}

func (x *Exec) pureSym(key string, fn *ssa.Function, sig *types.Signature) string {
	var ps []string
	for _, t := range paramTypes(sig) {
		ps = append(ps, x.so.sortOf(t))
	}
	sym := q(key + "!")
	if fn != nil && len(fn.TypeArgs()) > 0 {
		// one symbol per instantiation of a generic function
		sym = q(key + "!<" + strings.Join(ps, ",") + ">")
	}
	rs := "Int"
	if sig.Results().Len() == 1 {
		rs = x.so.sortOf(sig.Results().At(0).Type())
	}
	x.so.decl(sym, fmt.Sprintf("(declare-fun %s (%s) %s)", sym, strings.Join(ps, " "), rs))
	return sym
}

// interiorTerm names the address of a field path inside an object: an injective-by-name function of the base ref.
func (x *Exec) interiorTerm(l *Loc) (string, bool) {
	if l.Elem || l.Ref == "" {
		return "", false
	}
	name := "loc"
	for _, pe := range l.Path {
		if pe.IsIdx {
			return "", false
		}
		name += fmt.Sprintf(".%d", pe.Field)
	}
	sym := q(name + "!")
	x.so.decl(sym, fmt.Sprintf("(declare-fun %s (Int) Int)", sym))
	return "(" + sym + " " + l.Ref + ")", true
}

// applyContract models a call by its contract.
func (x *Exec) applyContract(st *State, fc *FuncContract, key string, callee *ssa.Function, sig *types.Signature, args []Val, pos token.Pos) Val {
	fc.Used = true
	names := paramNames(callee, sig)
	pts := paramTypes(sig)
	env := &Env{vars: map[string]Val{}, st: st, heaps: st.heaps, epoch: st.epoch, now: st.now, fr: nil}
	if p := fnPkg(callee); p != nil {
		env.pkg = p.Path()
	}
	o := callee
	if callee.Origin() != nil {
		o = callee.Origin()
	}
	env.at = bodyPos(o)
	for i, n := range names {
		if i < len(args) {
			a := args[i]
			if i < len(pts) && a.Loc == nil {
				a = Val{S: x.coerce(a, pts[i]), T: pts[i], Fn: a.Fn, Clo: a.Clo}
			}
			env.vars[n] = a
			env.vars[fmt.Sprintf("arg%d", i)] = a
		}
	}
	// free variables of a closure under contract: the cells it captured
	for k, fv := range o.FreeVars {
		if k < len(x.pendingClo) {
			v := x.pendingClo[k]
			v.Loc = x.locOf(v)
			v.Rng = &Val{S: "addr"}
			env.vars[fv.Name()] = v
		}
	}
	// preconditions
	env.oheaps, env.oepoch, env.onow = st.heaps, st.epoch, st.now
	for _, r := range fc.Requires {
		t := x.evalBool(st, r.SX, env)
		// a precondition protects the callee's properties: the obligation counts for those, not for the caller's
		x.emit(st, "pre", fmt.Sprintf("%s/call:%s@%s:%s", x.funcKeyOf(x.fn), shortKey(key), x.L.pos(pos), r.Name), Clause{Src: r.Src, Props: fc.Props}, t)
		x.assume(st, t)
	}
	// snapshot
	oh := make(map[string]string, len(st.heaps))
	for k, v := range st.heaps {
		oh[k] = v
	}
	oepoch, onow := st.epoch, st.now
	// frame
	if fc.ModAll {
		x.havocAll(st)
	} else {
		var names []string
		for _, m := range fc.Modifies {
			func() {
				defer func() {
					if r := recover(); r != nil {
						if se, ok := r.(specError); ok {
							x.errs = append(x.errs, fmt.Sprintf("%s: modifies of %s: %s", x.funcKeyOf(x.fn), key, se.msg))
							return
						}
						panic(r)
					}
				}()
				if env.results == nil {
					env.results = dummyResults(sig)
					defer func() { env.results = nil }()
				}
				names = append(names, x.modItemHeaps(m, env)...)
			}()
		}
		sort.Strings(names)
		for _, n := range names {
			x.havocHeap(st, n)
		}
	}
	x.advanceNow(st)
	// results
	var res Val
	rt := sig.Results()
	if fc.Pure && rt.Len() == 1 {
		sym := x.pureSym(key, callee, sig)
		var as []string
		for i, a := range args {
			if a.S == "" && a.Loc != nil {
				// an interior pointer (e.g. the address of an embedded struct passed as a receiver): a
				// function of the base object and the (static) field path
				if t, ok := x.interiorTerm(a.Loc); ok {
					as = append(as, t)
					continue
				}
			}
			if i < len(pts) {
				as = append(as, x.coerce(a, pts[i]))
			} else {
				as = append(as, a.S)
			}
		}
		term := sym
		if len(as) > 0 {
			term = "(" + sym + " " + strings.Join(as, " ") + ")"
		}
		res = Val{S: x.def(st, x.so.sortOf(rt.At(0).Type()), term), T: rt.At(0).Type()}
		x.bornFact(st, res)
	} else if rt.Len() == 1 {
		res = x.havocVal(st, rt.At(0).Type(), "res")
	} else if rt.Len() > 1 {
		res = x.havocVal(st, rt, "res")
	}
	env.heaps, env.epoch, env.now = st.heaps, st.epoch, st.now
	env.oheaps, env.oepoch, env.onow = oh, oepoch, onow
	if rt.Len() == 1 {
		env.results = []Val{res}
	} else {
		env.results = res.Tup
	}
	for i := 0; i < rt.Len(); i++ {
		if n := rt.At(i).Name(); n != "" && n != "_" {
			if _, clash := env.vars[n]; !clash {
				env.vars[n] = env.results[i]
			}
		}
	}
	if len(fc.Focus) == 0 { // focused contracts prove "focus => post"; nothing may be assumed from them at a call
		nb := len(st.lines)
		for _, e := range fc.Ensures {
			if pathLocalSX(e.SX) {
				continue // talks about the callee's own execution (call log, locals): not usable by callers
			}
			x.assume(st, x.evalBool(st, e.SX, env))
		}
		x.consistencyAfter(st, fmt.Sprintf("post-consistent:%s@%s", shortKey(key), x.L.pos(pos)), fc.Src, nb)
	}
	return res
}

func shortKey(k string) string {
	k = strings.ReplaceAll(k, modPath+"/", "")
	return k
}

func (x *Exec) implementers(iface types.Type) []types.Type {
	it, ok := types.Unalias(iface).Underlying().(*types.Interface)
	if !ok {
		return nil
	}
	var out []types.Type
	for _, p := range x.L.Pkgs {
		sc := p.Types.Scope()
		for _, n := range sc.Names() {
			tn, ok := sc.Lookup(n).(*types.TypeName)
			if !ok || tn.IsAlias() {
				continue
			}
			t := tn.Type()
			if types.IsInterface(t) {
				continue
			}
			if nt, ok := t.(*types.Named); ok && nt.TypeParams().Len() > 0 {
				continue
			}
			if types.Implements(t, it) {
				out = append(out, t)
			} else if pt := types.NewPointer(t); types.Implements(pt, it) {
				out = append(out, pt)
			}
		}
	}
	return out
}

// call executes a call instruction; returns false when the path ends.
func (x *Exec) call(st *State, i *ssa.Call) bool {
	c := i.Common()
	var args []Val
	for _, a := range c.Args {
		args = append(args, x.get(st, a))
	}
	if b, ok := c.Value.(*ssa.Builtin); ok {
		x.builtin(st, i, b, args)
		return true
	}
	var fv Val
	if !c.IsInvoke() {
		fv = x.get(st, c.Value)
	} else {
		fv = x.get(st, c.Value)
	}
	depth := len(st.stack)
	top := st.top()
	var pre *HeapSnap
	if depth == 1 && x.fc != nil && len(x.fc.Asserts) > 0 && !x.frameMode {
		hs := make(map[string]string, len(st.heaps))
		for k, v := range st.heaps {
			hs[k] = v
		}
		pre = &HeapSnap{heaps: hs, epoch: st.epoch, now: st.now}
	}
	nlog := len(st.callLog)
	ok := x.callCommon(st, c, i, i.Pos(), args, fv)
	if ok && len(st.stack) == depth && pre != nil {
		resolved := ""
		if len(st.callLog) > nlog {
			resolved = st.callLog[nlog] // the callee as resolved by callCommon (closures called through local cells)
		}
		x.ghostAsserts(st, top, c, i.Pos(), pre, resolved)
	}
	return ok
}

// ghostAsserts proves, then assumes, the contract's `assert after:<callee-substring> <name> <sx>` clauses at the
// program point right after a matching call of the function under verification (a ghost assert: it guides the
// solver with an intermediate fact and adds no assumption, because the fact is itself an obligation).
func (x *Exec) ghostAsserts(st *State, fr *Frame, c *ssa.CallCommon, pos token.Pos, pre *HeapSnap, resolved string) {
	name := ""
	if resolved != "" {
		name = resolved
	} else if c.IsInvoke() {
		name = c.Method.Name()
	} else if sc := c.StaticCallee(); sc != nil {
		name = x.funcKeyOf(sc)
	} else {
		name = c.Value.Name()
	}
	var labels []string
	for l := range x.fc.Asserts {
		labels = append(labels, l)
	}
	sort.Strings(labels)
	for _, l := range labels {
		sub, ok := strings.CutPrefix(l, "after:")
		if !ok {
			continue
		}
		// after:<callee-substring>[#n]: n = the n-th matching call on this path (1-based)
		nth := 0
		if k := strings.LastIndex(sub, "#"); k >= 0 {
			if n, err := strconv.Atoi(sub[k+1:]); err == nil {
				nth, sub = n, sub[:k]
			}
		}
		if !strings.Contains(name, sub) {
			continue
		}
		if nth > 0 {
			cnt := 0
			for _, k := range st.callLog {
				if strings.Contains(k, sub) {
					cnt++
				}
			}
			if cnt != nth {
				continue
			}
		}
		if x.assertHit == nil {
			x.assertHit = map[string]bool{}
		}
		for _, cl := range x.fc.Asserts[l] {
			cl := cl
			func() {
				// a clause that mentions a local not yet bound at this call site is skipped here; a clause that is
				// evaluable nowhere is an error (reported by verifyFunc)
				defer func() {
					if r := recover(); r != nil {
						if _, ok := r.(specError); ok {
							return
						}
						panic(r)
					}
				}()
				env := x.specEnv(st, fr, nil)
				ord := -1
				for o := range fr.loopSnap {
					if o > ord {
						ord = o
					}
				}
				if snap := fr.loopSnap[ord]; snap != nil {
					env.lheaps, env.lepoch, env.lnow, env.llocals = snap.heaps, snap.epoch, snap.now, snap.locals
				}
				env.cheaps, env.cepoch, env.cnow = pre.heaps, pre.epoch, pre.now
				t := x.evalBool(st, cl.SX, env)
				x.assertHit[l+"/"+cl.Name] = true
				x.emit(st, "assert", fmt.Sprintf("%s/assert:%s@%s", x.funcKeyOf(x.fn), cl.Name, x.L.pos(pos)), cl, t)
				x.assume(st, t)
			}()
		}
	}
}

// setRes binds a call result if the call has a result-carrying instruction.
func setRes(fr *Frame, i ssa.Value, v Val) {
	if i != nil {
		fr.vals[i] = v
	}
}

func resType(i ssa.Value, sig *types.Signature) types.Type {
	if i != nil {
		return i.Type()
	}
	if sig.Results().Len() == 1 {
		return sig.Results().At(0).Type()
	}
	return sig.Results()
}

func (x *Exec) callCommon(st *State, c *ssa.CallCommon, i ssa.Value, pos token.Pos, args []Val, fv Val) bool {
	fr := st.top()
	if c.IsInvoke() {
		recv := fv
		x.safety(st, "nil-iface-call", fmt.Sprintf("(not (= (i.tag %s) 0))", recv.S), pos)
		ms := x.methodSpec(c)
		sig := c.Method.Type().(*types.Signature)
		if ms != nil && ms.Mode == "fn" {
			x.assum["interface method "+ms.Iface+"."+ms.Method+" modelled as a pure function of the receiver value"] = true
			rt := sig.Results()
			mk := func(k int, t types.Type) Val {
				sym := q(fmt.Sprintf("m:%s.%s#%d", typeStr(c.Value.Type()), c.Method.Name(), k))
				ps := []string{"Iface"}
				as := []string{recv.S}
				for j, a := range args {
					ps = append(ps, x.so.sortOf(sig.Params().At(j).Type()))
					as = append(as, x.coerce(a, sig.Params().At(j).Type()))
				}
				x.so.decl(sym, fmt.Sprintf("(declare-fun %s (%s) %s)", sym, strings.Join(ps, " "), x.so.sortOf(t)))
				v := Val{S: x.def(st, x.so.sortOf(t), "("+sym+" "+strings.Join(as, " ")+")"), T: t}
				x.bornFact(st, v)
				return v
			}
			switch rt.Len() {
			case 0:
			case 1:
				setRes(fr, i, mk(0, rt.At(0).Type()))
			default:
				var tup []Val
				for k := 0; k < rt.Len(); k++ {
					tup = append(tup, mk(k, rt.At(k).Type()))
				}
				setRes(fr, i, Val{Tup: tup, T: rt})
			}
			return true
		}
		if ms != nil && ms.Mode == "log" {
			// the call is recorded; the callee is assumed not to touch the caller's data structures
			x.assum["calls of "+ms.Iface+"."+ms.Method+" are recorded and assumed not to modify the engine's state"] = true
			var res Val
			if sig.Results().Len() > 0 {
				res = x.havocVal(st, resType(i, sig), "log")
				setRes(fr, i, res)
			}
			st.dyn = append(st.dyn, DynCall{Site: len(st.dyn), Fn: recv, Args: args, Res: res, Desc: "invoke:" + c.Method.Name()})
			st.calls["invoke:"+c.Method.Name()]++
			return true
		}
		if ms != nil && ms.Mode == "dispatch" {
			x.dispatch(st, c, i, recv, args, sig, pos)
			return true
		}
		if x.ifaceOfPurePkg(c) {
			// method of an interface declared in a library package assumed not to write caller-visible memory
			x.abstr["assumed-pure invoke "+typeStr(c.Value.Type())+"."+c.Method.Name()]++
			if sig.Results().Len() > 0 {
				setRes(fr, i, x.havocVal(st, resType(i, sig), "invoke"))
			}
			return true
		}
		// frame by effect analysis over the module's implementations of the method
		if impls := x.implementers(c.Value.Type()); len(impls) > 0 {
			union := map[string]bool{}
			all := false
			for _, t := range impls {
				m := x.L.Prog.LookupMethod(t, c.Method.Pkg(), c.Method.Name())
				if m == nil {
					all = true
					break
				}
				sm, a := x.modSummary(m)
				if a {
					all = true
					break
				}
				for hn := range sm {
					union[hn] = true
				}
			}
			if !all {
				x.abstr[fmt.Sprintf("frame by effect analysis (%d heaps) invoke %s.%s", len(union), typeStr(c.Value.Type()), c.Method.Name())]++
				st.calls["effect:invoke "+typeStr(c.Value.Type())+"."+c.Method.Name()]++
				x.assum["dynamic types of "+typeStr(c.Value.Type())+" limited to its implementations in the loaded module"] = true
				names := make([]string, 0, len(union))
				for n := range union {
					names = append(names, n)
				}
				sort.Strings(names)
				for _, n := range names {
					x.havocHeap(st, n)
				}
				x.advanceNow(st)
				if sig.Results().Len() > 0 {
					setRes(fr, i, x.havocVal(st, resType(i, sig), "invoke"))
				}
				return true
			}
		}
		x.abstr["invoke "+typeStr(c.Value.Type())+"."+c.Method.Name()]++
		st.calls["effect:invoke "+typeStr(c.Value.Type())+"."+c.Method.Name()]++
		x.havocAll(st)
		x.advanceNow(st)
		if sig.Results().Len() > 0 {
			setRes(fr, i, x.havocVal(st, resType(i, sig), "invoke"))
		}
		return true
	}
	// static or closure
	var callee *ssa.Function
	var clo []Val
	if sc := c.StaticCallee(); sc != nil {
		callee = sc
		if fv.Fn == sc {
			clo = fv.Clo
		}
	} else if fv.Fn != nil {
		callee, clo = fv.Fn, fv.Clo
	}
	if callee == nil {
		// a closure called through the local variable it was assigned to (e.g. a recursive local function)
		if rc := resolveCallee(c); rc != nil && rc.Parent() != nil {
			if b := x.closureBindings(st, rc); b != nil || len(rc.FreeVars) == 0 {
				callee = rc
				clo = b
			}
		}
	}
	if callee == nil {
		// dynamic call
		res := Val{}
		if !x.dynPure() {
			x.havocAll(st)
		} else {
			x.assum["dynamic calls in "+x.funcKeyOf(x.fn)+" assumed not to write caller-visible memory"] = true
		}
		x.advanceNow(st)
		if sig := c.Signature(); sig.Results().Len() > 0 {
			res = x.havocVal(st, resType(i, sig), "dyn")
			setRes(fr, i, res)
		}
		st.dyn = append(st.dyn, DynCall{Site: len(st.dyn), Fn: fv, Args: args, Res: res})
		x.abstr["dynamic call at "+x.L.pos(pos)]++
		st.calls["effect:dyn "+dynDesc(c.Value)]++
		return true
	}
	fc, key := x.contractOf(callee)
	st.calls[key]++
	st.callLog = append(st.callLog, key)
	sig := callee.Signature
	if key == "slices.ContainsFunc" && len(args) == 2 {
		if r, ok := x.containsFuncModel(st, args[0], args[1]); ok {
			setRes(fr, i, r)
			return true
		}
	}
	if x.fc != nil && len(x.fc.InlineHere) > 0 && callee.Blocks != nil && len(st.stack) < 8 {
		for _, sub := range x.fc.InlineHere {
			if strings.Contains(key, sub) {
				// the contract of the function under verification asks for this callee's body (e.g. a higher-order
				// iterator whose callback is a closure of this function)
				x.pushFrame(st, callee, args, clo, i)
				return true
			}
		}
	}
	if fc != nil && !fc.Inline {
		x.pendingClo = clo
		res := x.applyContract(st, fc, key, callee, sig, args, pos)
		x.pendingClo = nil
		if sig.Results().Len() > 0 {
			setRes(fr, i, res)
			st.callRes[key] = append(st.callRes[key], res)
		}
		st.callArgs[key] = append(st.callArgs[key], args)
		if fc.ModAll {
			st.calls["effect:modifies-all "+shortKey(key)]++
		}
		return true
	}
	if x.inlinable(callee) && len(st.stack) < 8 {
		st.callArgs[key] = append(st.callArgs[key], args) // arguments of inlined calls are part of the call log too
		x.pushFrame(st, callee, args, clo, i)
		return true
	}
	if x.isAssumedPure(callee) {
		x.abstr["assumed-pure "+shortKey(key)]++
		if sig.Results().Len() > 0 {
			setRes(fr, i, x.havocVal(st, resType(i, sig), "ext"))
		}
		return true
	}
	if x.readOnlyCall(callee) {
		x.abstr["read-only by effect analysis "+shortKey(key)]++
		if sig.Results().Len() > 0 {
			res := x.havocVal(st, resType(i, sig), "ro")
			setRes(fr, i, res)
			st.callRes[key] = append(st.callRes[key], res)
		}
		st.callArgs[key] = append(st.callArgs[key], args)
		return true
	}
	if sm, all := x.modSummary(callee); !all {
		// frame by effect analysis: only the heaps the callee (transitively) may write or allocate in are havocked
		x.abstr[fmt.Sprintf("frame by effect analysis (%d heaps) %s", len(sm), shortKey(key))]++
		st.calls["effect:frame "+shortKey(key)]++
		st.callArgs[key] = append(st.callArgs[key], args)
		names := make([]string, 0, len(sm))
		for n := range sm {
			names = append(names, n)
		}
		sort.Strings(names)
		for _, n := range names {
			x.havocHeap(st, n)
		}
		x.advanceNow(st)
		if sig.Results().Len() > 0 {
			res := x.havocVal(st, resType(i, sig), "fr")
			setRes(fr, i, res)
			st.callRes[key] = append(st.callRes[key], res)
		}
		return true
	}
	x.abstr["havoc "+shortKey(key)]++
	st.calls["effect:havoc "+shortKey(key)]++
	st.callArgs[key] = append(st.callArgs[key], args)
	x.havocAll(st)
	x.advanceNow(st)
	if sig.Results().Len() > 0 {
		res := x.havocVal(st, resType(i, sig), "call")
		setRes(fr, i, res)
		st.callRes[key] = append(st.callRes[key], res)
	}
	return true
}

// dynDesc describes the callee expression of a dynamic call (e.g. the struct field it was loaded from).
func dynDesc(v ssa.Value) string {
	switch u := v.(type) {
	case *ssa.UnOp:
		if fa, ok := u.X.(*ssa.FieldAddr); ok {
			if st, _, ok := structOf(fa.X.Type().Underlying().(*types.Pointer).Elem()); ok {
				return "field:" + st.Field(fa.Field).Name()
			}
		}
	case *ssa.Field:
		if st, _, ok := structOf(u.X.Type()); ok {
			return "field:" + st.Field(u.Field).Name()
		}
	case *ssa.Parameter:
		return "param:" + u.Name()
	case *ssa.FreeVar:
		return "freevar:" + u.Name()
	}
	return "value:" + v.Name()
}

func (x *Exec) pushFrame(st *State, callee *ssa.Function, args []Val, clo []Val, retTo ssa.Value) {
	st.top().awaiting = true
	if !x.analyzed(callee) {
		x.analyzeLoops(callee)
	}
	nf := &Frame{fn: callee, vals: map[ssa.Value]Val{}, locals: map[string]Val{}, retTo: retTo, oldHeap: st.top().oldHeap, oldNow: st.top().oldNow}
	nf.site = callSiteOrdinal(st.top().fn, retTo, callee)
	for i, p := range callee.Params {
		if i < len(args) {
			a := args[i]
			if a.Loc == nil && a.Tup == nil {
				a = Val{S: x.coerce(a, p.Type()), T: p.Type(), Fn: a.Fn, Clo: a.Clo}
			}
			nf.vals[p] = a
		}
	}
	for i, f := range callee.FreeVars {
		if i < len(clo) {
			nf.vals[f] = clo[i]
		}
	}
	st.stack = append(st.stack, nf)
	if len(callee.Blocks) > 0 {
		x.enterBlock(st, callee.Blocks[0], nil)
	}
}

// callSiteOrdinal: 1-based position of the call instruction among the caller's calls (in block order) whose static
// callee is the given function (0 when the call is not a static call of it).
func callSiteOrdinal(caller *ssa.Function, call ssa.Value, callee *ssa.Function) int {
	if caller == nil || call == nil {
		return 0
	}
	co := callee
	if o := callee.Origin(); o != nil {
		co = o
	}
	n := 0
	for _, b := range caller.Blocks {
		for _, in := range b.Instrs {
			c, ok := in.(*ssa.Call)
			if !ok {
				continue
			}
			sc := c.Common().StaticCallee()
			if sc == nil {
				continue
			}
			if o := sc.Origin(); o != nil {
				sc = o
			}
			if sc != co {
				continue
			}
			n++
			if ssa.Value(c) == call {
				return n
			}
		}
	}
	return 0
}

func (x *Exec) analyzed(fn *ssa.Function) bool {
	if x.analyzedFns[fn] {
		return true
	}
	x.analyzedFns[fn] = true
	return false
}

func (x *Exec) dispatch(st *State, c *ssa.CallCommon, i ssa.Value, recv Val, args []Val, sig *types.Signature, pos token.Pos) {
	impls := x.implementers(c.Value.Type())
	rt := sig.Results()
	type target struct {
		t    types.Type
		tag  int
		m    *ssa.Function
		fc   *FuncContract
		key  string
		env  *Env
		mods map[string]bool
	}
	var tags []string
	var targets []*target
	for _, t := range impls {
		tag := x.so.tagOf(t)
		tags = append(tags, fmt.Sprintf("(= (i.tag %s) %d)", recv.S, tag))
		m := x.L.Prog.LookupMethod(t, c.Method.Pkg(), c.Method.Name())
		if m == nil {
			continue
		}
		fc, key := x.contractOf(m)
		if fc == nil && m.Synthetic != "" {
			// promoted method: use the contract of the declared method of the embedded type
			if sel := x.L.Prog.MethodSets.MethodSet(t).Lookup(c.Method.Pkg(), c.Method.Name()); sel != nil {
				if fo, ok := sel.Obj().(*types.Func); ok {
					if decl := x.L.Prog.FuncValue(fo); decl != nil {
						m = decl
						fc, key = x.contractOf(decl)
					}
				}
			}
		}
		if fc == nil {
			x.abstr["dispatch target without contract "+shortKey(key)]++
			continue
		}
		fc.Used = true
		env := &Env{vars: map[string]Val{}, st: st, heaps: st.heaps, epoch: st.epoch, now: st.now, oheaps: st.heaps, oepoch: st.epoch, onow: st.now}
		if p := fnPkg(m); p != nil {
			env.pkg = p.Path()
		}
		env.at = bodyPos(m)
		names := paramNames(m, m.Signature)
		rv := Val{S: x.so.unbox(t, fmt.Sprintf("(i.val %s)", recv.S)), T: t}
		all := append([]Val{rv}, args...)
		for k, n := range names {
			if k < len(all) {
				if k == 0 && m.Signature.Recv() != nil && !types.Identical(m.Signature.Recv().Type(), t) {
					continue // receiver of a promoted method: the embedded value is not projected
				}
				env.vars[n] = all[k]
			}
		}
		targets = append(targets, &target{t: t, tag: tag, m: m, fc: fc, key: key, env: env})
	}
	// preconditions of every possible target, under its tag
	for _, tg := range targets {
		for _, r := range tg.fc.Requires {
			t := x.evalBool(st, r.SX, tg.env)
			goal := fmt.Sprintf("(=> (= (i.tag %s) %d) %s)", recv.S, tg.tag, t)
			x.emit(st, "pre", fmt.Sprintf("%s/dispatch:%s@%s:%s", x.funcKeyOf(x.fn), shortKey(tg.key), x.L.pos(pos), r.Name), Clause{Src: r.Src, Props: tg.fc.Props}, goal)
			x.assume(st, goal)
		}
	}
	// frame: the union of what the targets may modify is havocked; a target that does not modify a heap keeps it
	oh := make(map[string]string, len(st.heaps))
	for k, v := range st.heaps {
		oh[k] = v
	}
	oepoch, onow := st.epoch, st.now
	union := map[string]bool{}
	modAll := false
	for _, tg := range targets {
		tg.mods = map[string]bool{}
		if tg.fc.ModAll {
			modAll = true
			continue
		}
		for _, mi := range tg.fc.Modifies {
			func() {
				defer func() {
					if r := recover(); r != nil {
						if se, ok := r.(specError); ok {
							x.errs = append(x.errs, fmt.Sprintf("%s: modifies of %s: %s", x.funcKeyOf(x.fn), tg.key, se.msg))
							return
						}
						panic(r)
					}
				}()
				tg.env.results = dummyResults(tg.m.Signature)
				for _, hn := range x.modItemHeaps(mi, tg.env) {
					tg.mods[hn] = true
					union[hn] = true
				}
			}()
		}
		tg.env.results = nil
	}
	type hv struct{ name, sort, old string }
	var havocked []hv
	if modAll {
		x.havocAll(st)
	} else {
		var names []string
		for n := range union {
			names = append(names, n)
		}
		sort.Strings(names)
		for _, n := range names {
			so := x.heapSo[n]
			old := ""
			if so != "" {
				old = heapSymIn(x, oh, oepoch, n, so)
			}
			x.havocHeap(st, n)
			havocked = append(havocked, hv{n, so, old})
		}
	}
	if modAll || len(union) > 0 {
		x.advanceNow(st)
	}
	var res Val
	if rt.Len() == 1 {
		res = x.havocVal(st, rt.At(0).Type(), "disp")
	} else if rt.Len() > 1 {
		res = x.havocVal(st, rt, "disp")
	}
	nb := len(st.lines)
	for _, tg := range targets {
		env := tg.env
		env.heaps, env.epoch, env.now = st.heaps, st.epoch, st.now
		env.oheaps, env.oepoch, env.onow = oh, oepoch, onow
		if rt.Len() == 1 {
			env.results = []Val{res}
		} else {
			env.results = res.Tup
		}
		guard := fmt.Sprintf("(= (i.tag %s) %d)", recv.S, tg.tag)
		if !modAll && !tg.fc.ModAll {
			for _, h := range havocked {
				if !tg.mods[h.name] && h.sort != "" {
					x.assume(st, fmt.Sprintf("(=> %s (= %s %s))", guard, heapSymIn(x, st.heaps, st.epoch, h.name, h.sort), h.old))
				}
			}
		}
		for _, e := range tg.fc.Ensures {
			if pathLocalSX(e.SX) {
				continue
			}
			x.assume(st, fmt.Sprintf("(=> %s %s)", guard, x.evalBool(st, e.SX, env)))
		}
	}
	if len(tags) > 0 {
		x.assume(st, "(or "+strings.Join(tags, " ")+" false)")
		x.assum["dynamic types of "+typeStr(c.Value.Type())+" limited to its implementations in the loaded module"] = true
	}
	x.consistencyAfter(st, fmt.Sprintf("post-consistent:dispatch %s.%s@%s", typeStr(c.Value.Type()), c.Method.Name(), x.L.pos(pos)), "contracts of the implementations", nb)
	if rt.Len() > 0 {
		setRes(st.top(), i, res)
	}
}

func (x *Exec) builtin(st *State, i *ssa.Call, b *ssa.Builtin, args []Val) {
	fr := st.top()
	c := i.Common()
	switch b.Name() {
	case "len", "cap":
		v := args[0]
		var r string
		switch u := types.Unalias(c.Args[0].Type()).Underlying().(type) {
		case *types.Slice:
			if b.Name() == "len" {
				r = fmt.Sprintf("(s.len %s)", v.S)
			} else {
				r = fmt.Sprintf("(s.cap %s)", v.S)
			}
		case *types.Basic:
			r = fmt.Sprintf("(strlen %s)", v.S)
			x.assume(st, fmt.Sprintf("(>= (strlen %s) 0)", v.S))
		case *types.Map:
			_, _, ml := x.mapHeaps(st, u)
			r = fmt.Sprintf("(ite (= %s 0) 0 (select %s %s))", v.S, ml, v.S)
			x.assume(st, fmt.Sprintf("(>= (select %s %s) 0)", ml, v.S))
		case *types.Array:
			r = fmt.Sprint(u.Len())
		case *types.Pointer:
			if a, ok := isArray(u.Elem()); ok {
				r = fmt.Sprint(a.Len())
			}
		}
		if r == "" {
			fr.vals[i] = x.havocVal(st, i.Type(), "len")
			x.assume(st, fmt.Sprintf("(>= %s 0)", fr.vals[i].S))
			return
		}
		x.bind(st, i, Val{S: r, T: i.Type()})
	case "append":
		x.appendB(st, i, args)
	case "delete":
		m := types.Unalias(c.Args[0].Type()).Underlying().(*types.Map)
		x.mapDelete(st, m, args[0].S, x.coerce(args[1], m.Key()))
	case "copy":
		if s, ok := types.Unalias(c.Args[0].Type()).Underlying().(*types.Slice); ok {
			x.havocHeap(st, eName(s.Elem()))
			x.note(st, "builtin copy abstracted (element heap havocked)")
		}
		fr.vals[i] = x.havocVal(st, i.Type(), "copy")
	case "clear":
		switch u := types.Unalias(c.Args[0].Type()).Underlying().(type) {
		case *types.Slice:
			x.havocHeap(st, eName(u.Elem()))
		case *types.Map:
			x.havocHeap(st, mdName(u))
			x.havocHeap(st, mvName(u))
			x.havocHeap(st, mlName(u))
		}
		x.note(st, "builtin clear abstracted")
	case "min", "max":
		if x.so.sortOf(i.Type()) == "Int" && len(args) == 2 {
			op := "<="
			if b.Name() == "max" {
				op = ">="
			}
			x.bind(st, i, Val{S: fmt.Sprintf("(ite (%s %s %s) %s %s)", op, args[0].S, args[1].S, args[0].S, args[1].S), T: i.Type()})
			return
		}
		fr.vals[i] = x.havocVal(st, i.Type(), "minmax")
	case "ssa:wrapnilchk":
		x.safety(st, "nil-deref", fmt.Sprintf("(not (= %s 0))", args[0].S), i.Pos())
		fr.vals[i] = args[0]
	case "recover":
		// on a normally returning path no panic is in progress
		fr.vals[i] = Val{S: "(mk_iface 0 0)", T: i.Type()}
	case "print", "println", "close", "panic":
	default:
		if i.Type() != nil {
			if tup, ok := i.Type().(*types.Tuple); !ok || tup.Len() > 0 {
				fr.vals[i] = x.havocVal(st, i.Type(), "builtin")
			}
		}
	}
}

// appendB models append(s, t...) with both the in-place and the reallocation outcome.
func (x *Exec) appendB(st *State, i *ssa.Call, args []Val) {
	c := i.Common()
	sl, ok := types.Unalias(c.Args[0].Type()).Underlying().(*types.Slice)
	if !ok || len(args) != 2 {
		st.top().vals[i] = x.havocVal(st, i.Type(), "append")
		return
	}
	if _, isStr := types.Unalias(c.Args[1].Type()).Underlying().(*types.Basic); isStr {
		st.top().vals[i] = x.havocVal(st, i.Type(), "append-string")
		x.havocHeap(st, eName(sl.Elem()))
		return
	}
	s, t := args[0], args[1]
	es := x.so.sortOf(sl.Elem())
	name, sort := eName(sl.Elem()), x.eSort(sl.Elem())
	E := x.heapSym(st, name, sort)
	newLen := x.declare(st, "nlen", "Int")
	x.assume(st, fmt.Sprintf("(= %s (+ (s.len %s) (s.len %s)))", newLen, s.S, t.S))
	inPlace := x.def(st, "Bool", fmt.Sprintf("(and (<= %s (s.cap %s)) (not (= (s.arr %s) 0)))", newLen, s.S, s.S))
	// fresh array for the reallocation case
	fr := x.freshRef(st)
	ncap := x.declare(st, "cap", "Int")
	x.assume(st, fmt.Sprintf("(>= %s %s)", ncap, newLen))
	// declared (not defined) so that they can appear in quantifier patterns
	arr := x.declare(st, "arr", "Int")
	x.assume(st, fmt.Sprintf("(= %s (ite %s (s.arr %s) %s))", arr, inPlace, s.S, fr))
	off := x.declare(st, "off", "Int")
	x.assume(st, fmt.Sprintf("(= %s (ite %s (s.off %s) 0))", off, inPlace, s.S))
	slen := x.declare(st, "slen", "Int")
	x.assume(st, fmt.Sprintf("(= %s (s.len %s))", slen, s.S))
	cp := x.declare(st, "cp", "Int")
	x.assume(st, fmt.Sprintf("(= %s (ite %s (s.cap %s) %s))", cp, inPlace, s.S, ncap))
	// new row contents
	row := x.declare(st, "row", fmt.Sprintf("(Array Int %s)", es))
	oldRow := fmt.Sprintf("(select %s (s.arr %s))", E, s.S)
	tRow := fmt.Sprintf("(select %s (s.arr %s))", E, t.S)
	jn := x.fresh("j")
	// prefix: elements of s
	x.assume(st, fmt.Sprintf("(forall ((%s Int)) (! (=> (and (<= 0 %s) (< %s (s.len %s))) (= (select %s (+ %s %s)) (select %s (+ (s.off %s) %s)))) :pattern ((select %s (+ %s %s)))))", jn, jn, jn, s.S, row, off, jn, oldRow, s.S, jn, row, off, jn))
	// suffix: elements of t (ground facts when the appended slice is a fixed-size literal array)
	if n := staticSliceLen(i.Common().Args[1]); n >= 0 && n <= 8 {
		for j := 0; j < n; j++ {
			x.assume(st, fmt.Sprintf("(= (select %s (+ %s %s %d)) (select %s (+ (s.off %s) %d)))", row, off, slen, j, tRow, t.S, j))
			if j == 0 {
				x.assume(st, fmt.Sprintf("(= (select %s (+ %s %s)) (select %s (s.off %s)))", row, off, slen, tRow, t.S))
			}
		}
	} else {
		x.assumeSuffix(st, jn, t, row, off, slen, tRow)
	}
	if false {
	x.assume(st, fmt.Sprintf("(forall ((%s Int)) (! (=> (and (<= 0 %s) (< %s (s.len %s))) (= (select %s (+ %s %s %s)) (select %s (+ (s.off %s) %s)))) :pattern ((select %s (+ %s %s %s)))))", jn, jn, jn, t.S, row, off, slen, jn, tRow, t.S, jn, row, off, slen, jn))
	}
	// in place: everything outside the appended window is unchanged
	x.assume(st, fmt.Sprintf("(=> %s (forall ((%s Int)) (! (=> (not (and (<= (+ %s (s.len %s)) %s) (< %s (+ %s %s)))) (= (select %s %s) (select %s %s))) :pattern ((select %s %s)))))", inPlace, jn, off, s.S, jn, jn, off, newLen, row, jn, oldRow, jn, row, jn))
	x.setHeap(st, name, sort, fmt.Sprintf("(store %s %s %s)", E, arr, row))
	x.rowFrame(st, sl.Elem(), E, arr)
	resC := x.declare(st, "app", "Slice")
	x.assume(st, fmt.Sprintf("(= %s (mk_slice %s %s %s %s))", resC, arr, off, newLen, cp))
	st.top().vals[i] = Val{S: resC, T: i.Type()}
	// the same facts phrased with the element-read function (consequences of the above; they give quantified
	// specifications about slices a trigger to fire on)
	E2 := x.heapSym(st, name, sort)
	res := st.top().vals[i].S
	sel := x.selFn(sl.Elem())
	x.assume(st, fmt.Sprintf("(forall ((%s Int)) (! (=> (and (<= 0 %s) (< %s (s.len %s))) (= (%s %s %s %s) (%s %s %s %s))) :pattern ((%s %s %s %s)) :pattern ((%s %s %s %s))))", jn, jn, jn, s.S, sel, E2, res, jn, sel, E, s.S, jn, sel, E2, res, jn, sel, E, s.S, jn))
	if n := staticSliceLen(i.Common().Args[1]); n >= 0 && n <= 8 {
		for j := 0; j < n; j++ {
			x.assume(st, fmt.Sprintf("(= (%s %s %s (+ %s %d)) (%s %s %s %d))", sel, E2, res, slen, j, sel, E, t.S, j))
		}
		x.assume(st, fmt.Sprintf("(= (%s %s %s %s) (%s %s %s 0))", sel, E2, res, slen, sel, E, t.S))
	}
}


func (x *Exec) assumeSuffix(st *State, jn string, t Val, row, off, slen, tRow string) {
	x.assume(st, fmt.Sprintf("(forall ((%s Int)) (! (=> (and (<= 0 %s) (< %s (s.len %s))) (= (select %s (+ %s %s %s)) (select %s (+ (s.off %s) %s)))) :pattern ((select %s (+ %s %s %s)))))", jn, jn, jn, t.S, row, off, slen, jn, tRow, t.S, jn, row, off, slen, jn))
}

// staticSliceLen: length of a slice value that is t[:] of a freshly allocated fixed-size array, else -1.
func staticSliceLen(v ssa.Value) int {
	sl, ok := v.(*ssa.Slice)
	if !ok || sl.Low != nil || sl.High != nil {
		return -1
	}
	al, ok := sl.X.(*ssa.Alloc)
	if !ok {
		return -1
	}
	if arr, ok := isArray(al.Type().(*types.Pointer).Elem()); ok {
		return int(arr.Len())
	}
	return -1
}


// containsFuncModel models slices.ContainsFunc(s, f) for a closure f under contract whose first postcondition has
// the shape (= result P): the result is  exists k. 0 <= k < len(s) and P[param := s[k]].  The closure's contract is
// verified against the closure body separately; slices.ContainsFunc itself is trusted to compute the existential.
func (x *Exec) containsFuncModel(st *State, s, f Val) (Val, bool) {
	if f.Fn == nil {
		return Val{}, false
	}
	fc, key := x.contractOf(f.Fn)
	if fc == nil || len(fc.Ensures) == 0 || fc.Ensures[0].SX.Head() != "=" || len(fc.Ensures[0].SX.List) != 3 || fc.Ensures[0].SX.List[1].String() != "result" {
		return Val{}, false
	}
	if len(f.Fn.Params) != 1 {
		return Val{}, false
	}
	fc.Used = true
	sl, ok := types.Unalias(s.T).Underlying().(*types.Slice)
	if !ok {
		return Val{}, false
	}
	env := &Env{vars: map[string]Val{}, st: st, heaps: st.heaps, epoch: st.epoch, now: st.now, oheaps: st.heaps, oepoch: st.epoch, onow: st.now}
	if p := fnPkg(f.Fn); p != nil {
		env.pkg = p.Path()
	}
	env.at = bodyPos(f.Fn)
	for k, fv := range f.Fn.FreeVars {
		if k < len(f.Clo) {
			v := f.Clo[k]
			v.Loc = x.locOf(v)
			v.Rng = &Val{S: "addr"}
			env.vars[fv.Name()] = v
		}
	}
	kn := x.fresh("ck")
	E := x.heapSym(st, eName(sl.Elem()), x.eSort(sl.Elem()))
	elem := Val{S: fmt.Sprintf("(%s %s %s %s)", x.selFn(sl.Elem()), E, s.S, kn), T: sl.Elem()}
	env.vars[f.Fn.Params[0].Name()] = elem
	var body string
	func() {
		defer func() {
			if r := recover(); r != nil {
				if _, ok := r.(specError); ok {
					body = ""
					return
				}
				panic(r)
			}
		}()
		body = x.eval(fc.Ensures[0].SX.List[2], env).S
	}()
	if body == "" {
		return Val{}, false
	}
	x.assum["slices.ContainsFunc computes the existential of its predicate (closure "+shortKey(key)+" is under contract)"] = true
	term := fmt.Sprintf("(exists ((%s Int)) (and (<= 0 %s) (< %s (s.len %s)) %s))", kn, kn, kn, s.S, body)
	r := x.declare(st, "cf", "Bool")
	x.assume(st, fmt.Sprintf("(= %s %s)", r, term))
	return Val{S: r, T: types.Typ[types.Bool]}, true
}


// closureBindings finds the cells captured by closure fn as seen from the current frame: the frame's own free
// variables when fn is the running closure (recursion), else the bindings of the MakeClosure in this function.
func (x *Exec) closureBindings(st *State, fn *ssa.Function) []Val {
	fr := st.top()
	if fr.fn == fn {
		var out []Val
		for _, fv := range fn.FreeVars {
			out = append(out, fr.vals[fv])
		}
		return out
	}
	// the frame (this one or an enclosing one on the stack) whose function created the closure
	for k := len(st.stack) - 1; k >= 0; k-- {
		f := st.stack[k]
		for _, b := range f.fn.Blocks {
			for _, in := range b.Instrs {
				if mc, ok := in.(*ssa.MakeClosure); ok && mc.Fn == ssa.Value(fn) {
					var out []Val
					for _, bnd := range mc.Bindings {
						v, ok := f.vals[bnd]
						if !ok {
							return nil
						}
						out = append(out, v)
					}
					return out
				}
			}
		}
	}
	// a sibling closure capturing the same variables: match free variables by name
	var out []Val
	for _, fv := range fn.FreeVars {
		found := false
		for _, mine := range fr.fn.FreeVars {
			if mine.Name() == fv.Name() {
				out = append(out, fr.vals[mine])
				found = true
			}
		}
		if !found {
			return nil
		}
	}
	return out
}


// pathLocalSX: the clause mentions the call log or local variables of the function's own execution.
func pathLocalSX(sx *SX) bool {
	if !sx.IsL {
		return false
	}
	switch sx.Head() {
	case "dyn", "local", "calls", "callarg", "callres", "callresn", "atloop", "athead":
		return true
	}
	for _, c := range sx.List {
		if pathLocalSX(c) {
			return true
		}
	}
	return false
}
