package main

import (
	"encoding/json"
	"flag"
	"fmt"
	"hash/fnv"
	"os"
	"path/filepath"
	"regexp"
	"sort"
	"strconv"
	"strings"
	"sync"
	"time"

	"golang.org/x/tools/go/ssa"
)

type KnownFinding struct {
	Property   string `json:"property"`
	Obligation string `json:"obligation"` // regexp on the obligation name
	What       string `json:"what"`
	Status     string `json:"status"` // "open" | "fixed"
	Commit     string `json:"commit,omitempty"`
}

type Report struct {
	Prop        string
	Tier        string
	Seed        int
	Funcs       []string
	Obs         []*Obligation
	Errs        []string
	Abstr       map[string]int
	Assum       map[string]bool
	Dropped     map[string]int
	Extra       map[string]any
	Violations  []Violation
	Known       []string
	Wall        float64
	Bounded     []map[string]any
	StructFails []StructOb
	verifDir    string
	L           *Loaded
}

type Violation struct {
	Obligation string
	Replay     string
	NoInput    bool
}

func main() {
	if len(os.Args) < 2 {
		fmt.Fprintln(os.Stderr, "usage: vc check|dump|list ...")
		os.Exit(2)
	}
	switch os.Args[1] {
	case "check":
		os.Exit(cmdCheck(os.Args[2:]))
	case "dump":
		os.Exit(cmdDump(os.Args[2:]))
	case "sweep":
		os.Exit(cmdSweep(os.Args[2:]))
	case "races":
		L, db, err := loadAll("/repo", "/verif")
		if err != nil {
			fmt.Fprintln(os.Stderr, err)
			os.Exit(2)
		}
		n := 0
		rs, reach, entries := enumerateRaceSites(L, db)
		fmt.Println(len(reach), "functions reachable from", len(entries), "goroutine entries")
		for _, s := range rs {
			n++
			if !s.OK {
				fmt.Printf("%-9s %-28s %-40s %s  [%s] in %s\n", s.Own, s.What, s.Desc, L.pos(s.In.Pos()), s.Why, shortKey(s.Fn.RelString(nil)))
			}
		}
		fmt.Println(n, "sites")
	case "frames":
		L, db, err := loadAll("/repo", "/verif")
		if err != nil {
			fmt.Fprintln(os.Stderr, err)
			os.Exit(2)
		}
		cnt := map[string]int{}
		for _, s := range enumerateFrameSites(L, db) {
			k := "ok"
			if !s.OK {
				k = "FAIL"
				if s.Obs {
					k = "obs"
				}
			}
			cnt[k]++
			if !s.OK {
				p := ""
				if s.In != nil {
					p = L.pos(s.In.Pos())
				}
				fmt.Printf("%-4s %-9s %-14s %-40s %s  [%s] in %s\n", k, s.Own, s.What, s.Desc, p, s.Why, shortKey(s.Fn.RelString(nil)))
			}
		}
		fmt.Println(cnt)
	default:
		fmt.Fprintln(os.Stderr, "unknown command")
		os.Exit(2)
	}
}

func loadAll(repo, verif string) (*Loaded, *ContractDB, error) {
	L, err := loadRepo(repo)
	if err != nil {
		return nil, nil, err
	}
	db := newContractDB()
	files := L.contractFiles()
	var fs []string
	for f := range files {
		fs = append(fs, f)
	}
	sort.Strings(fs)
	for _, f := range fs {
		if err := db.loadContractFile(f, files[f]); err != nil {
			return nil, nil, err
		}
	}
	exts, _ := filepath.Glob(filepath.Join(verif, "spec", "*.contracts"))
	sort.Strings(exts)
	for _, f := range exts {
		if err := db.loadContractFile(f, ""); err != nil {
			return nil, nil, err
		}
	}
	pre, _ := filepath.Glob(filepath.Join(verif, "spec", "*.smt2"))
	sort.Strings(pre)
	for _, f := range pre {
		b, err := os.ReadFile(f)
		if err != nil {
			return nil, nil, err
		}
		for _, ln := range strings.Split(string(b), "\n") {
			db.Prelude = append(db.Prelude, ln)
			if strings.Contains(ln, ";; axiom:") {
				db.Axioms = append(db.Axioms, strings.TrimSpace(ln[strings.Index(ln, ";; axiom:")+9:]))
			}
		}
	}
	return L, db, nil
}

func cmdDump(args []string) int {
	fs := flag.NewFlagSet("dump", flag.ExitOnError)
	repo := fs.String("repo", "/repo", "")
	verif := fs.String("verif", "/verif", "")
	fn := fs.String("func", "", "function key (substring)")
	obs := fs.Bool("obs", false, "print obligations")
	which := fs.String("ob", "", "print script of obligation whose name contains this")
	fs.Parse(args)
	L, db, err := loadAll(*repo, *verif)
	if err != nil {
		fmt.Fprintln(os.Stderr, err)
		return 2
	}
	for _, f := range L.AllFns {
		key := normKey(f.RelString(nil))
		if !strings.Contains(key, *fn) {
			continue
		}
		fmt.Println("==", key)
		if !*obs {
			f.WriteTo(os.Stdout)
			continue
		}
		fc := db.Funcs[key]
		if fc == nil {
			fmt.Println("   (no contract)")
			continue
		}
		tv := time.Now()
		r := verifyFunc(L, db, f, fc)
		fmt.Printf("  (symbolic execution %.1fs of which %d inline solver calls %.1fs, %d obligations, %d states)\n", time.Since(tv).Seconds(), r.InlineN, r.InlineS, len(r.Obs), r.States)
		for _, e := range r.Errs {
			fmt.Println("  ERR", e)
		}
		scratch, _ := os.MkdirTemp("/var/tmp", "vcdump")
		discharge(r.Obs, scratch, "quick", 0)
		os.RemoveAll(scratch)
		for _, ob := range r.Obs {
			fmt.Printf("  %-8s %-7s %5.2fs %s [%s] %s\n", ob.Kind, ob.Result, ob.Seconds, ob.Name, ob.Path, ob.Solver)
			if *which != "" && strings.Contains(ob.Name, *which) && ob.Result != ob.Expect {
				fmt.Println(ob.Script)
				fmt.Println(ob.Output)
			}
		}
	}
	return 0
}

func sanitize(s string) string {
	h := fnv.New32a()
	h.Write([]byte(s))
	out := regexp.MustCompile(`[^A-Za-z0-9_.-]+`).ReplaceAllString(s, "_")
	if len(out) > 150 {
		out = out[:150]
	}
	return fmt.Sprintf("%s.%08x", out, h.Sum32())
}

func cmdCheck(args []string) int {
	fs := flag.NewFlagSet("check", flag.ExitOnError)
	repo := fs.String("repo", "/repo", "")
	verif := fs.String("verif", "/verif", "")
	prop := fs.String("prop", "", "property id")
	tier := fs.String("tier", "quick", "")
	fs.Parse(args)
	if t := os.Getenv("VERIF_TIER"); t != "" && *tier == "quick" {
		*tier = t
	}
	seed, _ := strconv.Atoi(os.Getenv("VERIF_SEED"))
	t0 := time.Now()
	L, db, err := loadAll(*repo, *verif)
	rep := &Report{verifDir: *verif, Prop: *prop, Tier: *tier, Seed: seed, Abstr: map[string]int{}, Assum: map[string]bool{}, Dropped: map[string]int{}, Extra: map[string]any{}}
	if err != nil {
		// the tree does not load with contracts: undecided, reported as a violation without input
		rep.Errs = append(rep.Errs, "load: "+err.Error())
		return finish(rep, *verif, db, t0)
	}
	rep.L = L
	runDeductive(L, db, rep)
	runBounded(L, rep, *verif)
	if extra, ok := extraChecks[*prop]; ok {
		for _, ec := range extra {
			ec(L, db, rep)
		}
	}
	return finish(rep, *verif, db, t0)
}

// extraChecks are per-property obligation generators beyond function contracts (frames, enumerations).
var extraChecks = map[string][]func(*Loaded, *ContractDB, *Report){
	"C12": {fileLoopObligations},
	"C17": {frameObligations},
	"C04": {determinismObligations},
	"C16": {raceObligations},
	"C07": {containmentObligations},
}

func runDeductive(L *Loaded, db *ContractDB, rep *Report) {
	type job struct {
		fn *ssa.Function
		fc *FuncContract
		lm *Lemma
	}
	var jobs []job
	for _, key := range db.sortedKeys() {
		fc := db.Funcs[key]
		if fc.Extern || fc.NoBody || !hasProp(fc.Props, rep.Prop) && !clauseHasProp(fc, rep.Prop) {
			continue
		}
		if len(fc.Requires) == 0 && len(fc.Ensures) == 0 && len(fc.Loops) == 0 && !fc.NoPanic && len(fc.NoPanicKinds) == 0 && len(fc.Asserts) == 0 && !fc.ModAll && len(fc.Modifies) == 0 {
			// ownership-only contract: checked by the frame obligations, not by symbolic execution
			if L.Funcs[key] == nil {
				rep.Errs = append(rep.Errs, fmt.Sprintf("contract target missing: %s (%s)", key, fc.Src))
			}
			continue
		}
		fkey := key
		if fc.Base != "" {
			fkey = fc.Base
		}
		fn := L.Funcs[fkey]
		if fn == nil {
			rep.Errs = append(rep.Errs, fmt.Sprintf("contract target missing: %s (%s)", key, fc.Src))
			continue
		}
		jobs = append(jobs, job{fn: fn, fc: fc})
	}
	for _, lm := range db.Lemmas {
		if hasProp(lm.Props, rep.Prop) {
			jobs = append(jobs, job{lm: lm})
		}
	}
	// A precondition is an obligation only at call sites inside functions verified under the same property;
	// everywhere else it is an assumption: say so in the evidence.
	{
		keyOf := map[*ssa.Function]string{}
		for k, f := range L.Funcs {
			keyOf[f] = k
		}
		verified := map[*ssa.Function]bool{}
		for _, j := range jobs {
			if j.fn != nil {
				verified[j.fn] = true
			}
		}
		for _, j := range jobs {
			if j.fn == nil || len(j.fc.Requires) == 0 {
				continue
			}
			var unchecked []string
			ncall := 0
			for _, caller := range L.AllFns {
				for _, b := range caller.Blocks {
					for _, in := range b.Instrs {
						hit := false
						if ci, ok := in.(ssa.CallInstruction); ok && ci.Common().StaticCallee() == j.fn {
							hit = true
						}
						if mc, ok := in.(*ssa.MakeClosure); ok && mc.Fn == ssa.Value(j.fn) {
							hit = true
						}
						if !hit {
							continue
						}
						ncall++
						if !verified[caller] {
							unchecked = append(unchecked, shortKey(keyOf[caller]))
						}
					}
				}
			}
			sort.Strings(unchecked)
			unchecked = compactStrings(unchecked)
			name := shortKey(keyOf[j.fn])
			switch {
			case ncall == 0:
				rep.Assum["precondition of "+name+" is assumed (no static call site in the module: entry point or called dynamically)"] = true
			case len(unchecked) > 0:
				rep.Assum["precondition of "+name+" is assumed at its call sites in functions not verified under this property: "+strings.Join(unchecked, ", ")] = true
			}
		}
	}
	results := make([]*FuncResult, len(jobs))
	var wg sync.WaitGroup
	sem := make(chan struct{}, 8)
	var mu sync.Mutex
	for i, j := range jobs {
		wg.Add(1)
		go func(i int, j job) {
			defer wg.Done()
			sem <- struct{}{}
			defer func() { <-sem }()
			defer func() {
				if r := recover(); r != nil {
					mu.Lock()
					name := ""
					if j.fn != nil {
						name = j.fn.RelString(nil)
					} else {
						name = j.lm.Name
					}
					rep.Errs = append(rep.Errs, fmt.Sprintf("engine panic in %s: %v", name, r))
					mu.Unlock()
				}
			}()
			if j.lm != nil {
				results[i] = verifyLemma(L, db, j.lm)
			} else {
				results[i] = verifyFunc(L, db, j.fn, j.fc)
			}
		}(i, j)
	}
	wg.Wait()
	for _, r := range results {
		if r == nil {
			continue
		}
		rep.Funcs = append(rep.Funcs, r.Key)
		rep.Errs = append(rep.Errs, r.Errs...)
		for k, v := range r.Abstr {
			rep.Abstr[k] += v
		}
		for _, a := range r.Assum {
			rep.Assum[a] = true
		}
		for k, v := range r.Dropped {
			rep.Dropped[k] += v
		}
		for _, ob := range r.Obs {
			if len(ob.Props) == 0 || hasProp(ob.Props, rep.Prop) {
				rep.Obs = append(rep.Obs, ob)
			}
		}
	}
	scratch, err := os.MkdirTemp(scratchBase(), "verif.")
	if err != nil {
		rep.Errs = append(rep.Errs, err.Error())
		return
	}
	defer os.RemoveAll(scratch)
	discharge(rep.Obs, scratch, rep.Tier, rep.Seed)
}

func compactStrings(a []string) []string {
	var out []string
	for i, s := range a {
		if i == 0 || s != a[i-1] {
			out = append(out, s)
		}
	}
	return out
}

func scratchBase() string {
	if s := os.Getenv("VERIF_SCRATCH"); s != "" {
		return s
	}
	return "/var/tmp"
}

func clauseHasProp(fc *FuncContract, p string) bool {
	for _, c := range fc.Ensures {
		if hasProp(c.Props, p) {
			return true
		}
	}
	for _, l := range fc.Loops {
		for _, c := range l.Invariants {
			if hasProp(c.Props, p) {
				return true
			}
		}
	}
	return false
}

func loadKnown(verif string) []KnownFinding {
	b, err := os.ReadFile(filepath.Join(verif, "known_findings.json"))
	if err != nil {
		return nil
	}
	var k struct {
		Findings []KnownFinding `json:"findings"`
	}
	if json.Unmarshal(b, &k) != nil {
		return nil
	}
	return k.Findings
}

func finish(rep *Report, verif string, db *ContractDB, t0 time.Time) int {
	known := loadKnown(verif)
	replayDir := filepath.Join(verif, "replays", rep.Prop)
	os.RemoveAll(replayDir)
	discharged, covers, coversSat := 0, 0, 0
	byBackend := map[string]int{}
	solverS := 0.0
	var samples []any
	groups := map[string]bool{}
	type failure struct {
		name, detail, script string
		model                bool
		concrete             bool
		ob                   *Obligation
	}
	var fails []failure
	anyGroups := map[string]string{} // cover-any name -> "sat" if some path is sat
	anySrc := map[string]string{}
	for _, ob := range rep.Obs {
		if ob.Expect == "sat-any" {
			if _, ok := anyGroups[ob.Name]; !ok {
				anyGroups[ob.Name] = ""
				anySrc[ob.Name] = ob.Src
			}
			if ob.Result == "sat" || ob.Result == "unknown" || ob.Result == "timeout" {
				// unknown: the solver could not refute reachability; not evidence of vacuity
				anyGroups[ob.Name] = "sat"
			}
		}
	}
	for _, ob := range rep.Obs {
		solverS += ob.Seconds
		if ob.Expect == "sat-any" {
			covers++
			if ob.Result == "sat" {
				coversSat++
			}
			continue
		}
		if ob.Expect == "sat" {
			covers++
			if ob.Result == "sat" {
				coversSat++
			} else if ob.Result == "unsat" {
				fails = append(fails, failure{name: ob.Name, detail: "vacuity: " + ob.Name[strings.LastIndex(ob.Name, "/cover:")+7:] + " is unsatisfiable: the assumed contract text is contradictory on this path, or the point is unreachable (" + ob.Src + ")\n" + ob.Output, script: ob.Script})
			}
			continue
		}
		groups[ob.Name] = true
		if ob.Result == "unsat" {
			discharged++
			byBackend[ob.Solver]++
			if len(samples) < 6 {
				samples = append(samples, map[string]any{"obligation": ob.Name, "kind": ob.Kind, "path": ob.Path, "smt_bytes": ob.Bytes, "solver": ob.Solver, "seconds": round3(ob.Seconds), "src": ob.Src})
			}
			continue
		}
		fails = append(fails, failure{name: ob.Name, detail: fmt.Sprintf("kind=%s src=%s path=%s result=%s solver=%s\n%s", ob.Kind, ob.Src, ob.Path, ob.Result, ob.Solver, ob.Output), script: ob.Script, model: ob.Result == "sat", ob: ob})
	}
	for name, r := range anyGroups {
		if r != "sat" {
			fails = append(fails, failure{name: name, detail: "vacuity: the antecedent of this case-table row is unreachable on every returning path (" + anySrc[name] + ")"})
		}
	}
	for _, e := range rep.Errs {
		fails = append(fails, failure{name: "engine:" + e, detail: e})
	}
	for _, o := range rep.StructFails {
		fails = append(fails, failure{name: o.Name, detail: "structural obligation failed (" + o.Src + "): " + o.Detail, concrete: o.Concrete})
	}
	nObs := len(rep.Obs) - covers
	// zero obligations is vacuous success: refuse
	if nObs == 0 && len(fails) == 0 && rep.Extra["obligations_extra"] == nil {
		fails = append(fails, failure{name: "engine:no-obligations", detail: "no obligation was generated for property " + rep.Prop})
	}
	seenFail := map[string]bool{}
	exit := 0
	for _, f := range fails {
		if seenFail[f.name] {
			continue
		}
		seenFail[f.name] = true
		matched := false
		for _, k := range known {
			if k.Property == rep.Prop && k.Status != "fixed" {
				if ok, _ := regexp.MatchString(k.Obligation, f.name); ok {
					fmt.Printf("KNOWN-FINDING: property=%s %s [%s]\n", rep.Prop, k.What, f.name)
					rep.Known = append(rep.Known, f.name)
					matched = true
					break
				}
			}
		}
		if matched {
			continue
		}
		os.MkdirAll(replayDir, 0o755)
		path := filepath.Join(replayDir, sanitize(f.name)+".txt")
		body := fmt.Sprintf("property: %s\nfailed obligation: %s\n\n%s\n", rep.Prop, f.name, f.detail)
		if f.script != "" {
			sp := filepath.Join(replayDir, sanitize(f.name)+".smt2")
			os.WriteFile(sp, []byte(f.script), 0o644)
			body += "\nSMT query: " + sp + "\n"
		}
		replayed := f.concrete
		if f.model && f.ob != nil && f.ob.Replay != nil && rep.L != nil {
			if note, ok := replayScalar(rep.L, f.ob, replayDir); ok {
				body += "\nreplay against the real code:\n" + note + "\n"
				replayed = true
			} else if note != "" {
				body += "\nreplay attempt: " + note + "\n"
			}
		} else if f.model {
			if note, ok := tryReplay(rep, f.name, f.detail, replayDir); ok {
				body += "\nreplay against the real code:\n" + note + "\n"
				replayed = true
			} else if note != "" {
				body += "\nreplay attempt: " + note + "\n"
			}
		}
		os.WriteFile(path, []byte(body), 0o644)
		suffix := ""
		if !replayed {
			suffix = " no-failing-input-found"
		}
		if len(rep.Violations) < 25 {
			fmt.Printf("VIOLATION property=%s replay=%s%s\n", rep.Prop, path, suffix)
		} else if len(rep.Violations) == 25 {
			fmt.Printf("(further violations are listed only in %s)\n", replayDir)
		}
		rep.Violations = append(rep.Violations, Violation{Obligation: f.name, Replay: path, NoInput: !replayed})
		exit = 1
	}
	rep.Wall = time.Since(t0).Seconds()
	writeEvidence(rep, verif, db, nObs, discharged, covers, coversSat, byBackend, solverS, samples, len(groups))
	fmt.Printf("%s %s: %d SMT obligations (%d named), %d discharged; %d structural obligations, %d discharged; %d covers (%d sat), %d functions, %.1fs\n", rep.Prop, rep.Tier, nObs, len(groups), discharged, extraInt(rep.Extra, "obligations_extra"), extraInt(rep.Extra, "discharged_extra"), covers, coversSat, len(rep.Funcs), rep.Wall)
	return exit
}

// tryReplay is overridden per property where a replay template exists.
var replayers = map[string]func(rep *Report, name, detail, dir string) (string, bool){}

func tryReplay(rep *Report, name, detail, dir string) (string, bool) {
	if r, ok := replayers[rep.Prop]; ok {
		return r(rep, name, detail, dir)
	}
	return "", false
}

func round3(f float64) float64 { return float64(int(f*1000)) / 1000 }

func writeEvidence(rep *Report, verif string, db *ContractDB, nObs, discharged, covers, coversSat int, byBackend map[string]int, solverS float64, samples []any, groups int) {
	var abstr []string
	for k, v := range rep.Abstr {
		abstr = append(abstr, fmt.Sprintf("%s x%d", k, v))
	}
	sort.Strings(abstr)
	var assum []string
	for k := range rep.Assum {
		assum = append(assum, k)
	}
	for k, v := range rep.Dropped {
		assum = append(assum, fmt.Sprintf("dropped by the generator: %s (x%d)", k, v))
	}
	if db != nil {
		for _, a := range db.Axioms {
			assum = append(assum, "axiom: "+a)
		}
		var ext []string
		for k, fc := range db.Funcs {
			if fc.Extern && fc.Used {
				ext = append(ext, k)
			}
		}
		sort.Strings(ext)
		for _, e := range ext {
			assum = append(assum, "trusted external contract: "+e)
		}
		var nb, elsewhere []string
		for k, fc := range db.Funcs {
			if !fc.Used || fc.Extern {
				continue
			}
			if fc.NoBody {
				nb = append(nb, shortKey(k))
			} else if !hasProp(fc.Props, rep.Prop) && !clauseHasProp(fc, rep.Prop) && !fc.Inline {
				elsewhere = append(elsewhere, shortKey(k)+" ("+strings.Join(fc.Props, ",")+")")
			}
		}
		sort.Strings(nb)
		sort.Strings(elsewhere)
		for _, e := range nb {
			assum = append(assum, "trusted contract, body not verified (nobody): "+e)
		}
		if len(elsewhere) > 0 {
			assum = append(assum, "callee contracts used here whose bodies are discharged by the checks of other properties: "+strings.Join(elsewhere, "; "))
		}
		var pp []string
		for p := range db.PurePkg {
			pp = append(pp, p)
		}
		sort.Strings(pp)
		if len(pp) > 0 {
			assum = append(assum, "functions of these packages are assumed not to write caller-visible memory: "+strings.Join(pp, " "))
		}
	}
	assum = append(assum,
		"machine integers treated as mathematical integers",
		"go/types type checker and x/tools go/ssa lowering are trusted",
		"the VC generator (/verif/vc) and its heap model are trusted",
		"abstracted calls: "+strings.Join(abstr, "; "))
	sort.Strings(assum)
	if samples == nil {
		samples = []any{}
	}
	cov := map[string]any{
		"obligations":              nObs + extraInt(rep.Extra, "obligations_extra"),
		"discharged":               discharged + extraInt(rep.Extra, "discharged_extra"),
		"named_obligation_groups":  groups,
		"covers":                   covers,
		"covers_sat":               coversSat,
		"checker_cmd":              "/verif/check " + rep.Prop + " --tier " + rep.Tier,
		"trusted_base":             []string{"go/types", "golang.org/x/tools/go/ssa v0.45.0", "/verif/vc VC generator", "z3 5.1.0 (z3-new)", "cvc5 1.0.3", "z3 4.8.12"},
		"functions_under_contract": rep.Funcs,
		"by_backend":               byBackend,
		"solver_s":                 round3(solverS),
		"abstracted_calls":         abstr,
		"samples":                  samples,
		"known_findings_matched":   rep.Known,
		"bounded":                  rep.Bounded,
	}
	for k, v := range rep.Extra {
		if k != "obligations_extra" && k != "discharged_extra" {
			cov[k] = v
		}
	}
	ev := map[string]any{
		"property_id": rep.Prop,
		"tier":        rep.Tier,
		"seed":        rep.Seed,
		"level":       "proof",
		"coverage":    cov,
		"assumptions": assum,
		"wall_s":      round3(rep.Wall),
		"violations":  len(rep.Violations),
	}
	os.MkdirAll(filepath.Join(verif, "evidence"), 0o755)
	b, _ := json.MarshalIndent(ev, "", " ")
	os.WriteFile(filepath.Join(verif, "evidence", rep.Prop+".json"), b, 0o644)
}

func extraInt(m map[string]any, k string) int {
	if v, ok := m[k].(int); ok {
		return v
	}
	return 0
}
