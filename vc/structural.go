package main

import (
	"fmt"
	"go/types"
	"sort"
	"strings"

	"golang.org/x/tools/go/ssa"
)

// StructOb is an obligation discharged by a structural argument over the SSA/CFG (dominance, data flow) rather
// than by an SMT query. It is generated from the current tree on every run, like the SMT obligations.
type StructOb struct {
	Name   string
	OK     bool
	Detail string
	Src    string
	// Concrete: the failure is a concrete input that was run against the real code (bounded checks)
	Concrete bool
}

func (rep *Report) addStruct(obs []StructOb, backend string) {
	n, ok := 0, 0
	var samples []any
	for _, o := range obs {
		n++
		if o.OK {
			ok++
			if len(samples) < 4 {
				samples = append(samples, map[string]any{"obligation": o.Name, "kind": "structural:" + backend, "src": o.Src, "detail": o.Detail})
			}
		} else {
			rep.StructFails = append(rep.StructFails, o)
		}
	}
	rep.Extra["obligations_extra"] = extraInt(rep.Extra, "obligations_extra") + n
	rep.Extra["discharged_extra"] = extraInt(rep.Extra, "discharged_extra") + ok
	key := "structural_obligations_" + backend
	rep.Extra[key] = map[string]any{"count": n, "discharged": ok, "samples": samples}
}

func isPure(in ssa.Instruction, x *Exec) bool {
	switch i := in.(type) {
	case *ssa.FieldAddr, *ssa.IndexAddr, *ssa.BinOp, *ssa.Phi, *ssa.If, *ssa.Jump, *ssa.Extract, *ssa.Lookup,
		*ssa.DebugRef, *ssa.Field, *ssa.Index, *ssa.ChangeType, *ssa.Convert, *ssa.MakeInterface, *ssa.Slice,
		*ssa.ChangeInterface, *ssa.Range, *ssa.Next, *ssa.TypeAssert:
		return true
	case *ssa.UnOp:
		return i.Op.String() != "<-"
	case *ssa.Call:
		c := i.Common()
		if b, ok := c.Value.(*ssa.Builtin); ok {
			switch b.Name() {
			case "len", "cap", "min", "max":
				return true
			}
			return false
		}
		if callee := resolveCallee(c); callee != nil {
			if x.isAssumedPure(callee) {
				return true
			}
			if fc, _ := x.contractOf(callee); fc != nil && !fc.ModAll && len(fc.Modifies) == 0 {
				return true
			}
			return readOnlyFn(x, callee)
		}
		if c.IsInvoke() {
			if ms := x.methodSpec(c); ms != nil && ms.Mode == "fn" {
				return true
			}
			if x.ifaceOfPurePkg(c) {
				return true // a method of an interface declared in a package assumed not to write caller-visible memory
			}
			impls := x.implementers(c.Value.Type())
			if len(impls) == 0 {
				return false
			}
			for _, t := range impls {
				m := x.L.Prog.LookupMethod(t, c.Method.Pkg(), c.Method.Name())
				if m == nil || !readOnlyFn(x, m) {
					return false
				}
			}
			return true
		}
		return false
	}
	return false
}

// fileLoopObligations: C12 "a file out of scope contributes nothing": in every loop over pass.Files of the scoped
// analyzers, every effectful instruction of the loop body is dominated by the in-scope successor of the branch on
// IsFileInScope(file), and no loop-carried value changes on the skipping path.
func fileLoopObligations(L *Loaded, db *ContractDB, rep *Report) {
	x := newExec(L, db, newSorts())
	var obs []StructOb
	nLoops := 0
	for _, fn := range L.AllFns {
		p := fnPkg(fn)
		if p == nil {
			continue
		}
		// the statement scopes "dereference sites, nil sources or annotations": the assertion and annotation analyzers
		path := p.Path()
		if !(strings.HasPrefix(path, modPath+"/assertion") || strings.HasPrefix(path, modPath+"/annotation")) {
			continue
		}
		for _, b := range fn.Blocks {
			for _, in := range b.Instrs {
				ia, ok := in.(*ssa.IndexAddr)
				if !ok || !isPassFiles(ia.X) {
					continue
				}
				nLoops++
				obs = append(obs, checkFileLoop(L, x, fn, ia)...)
			}
		}
	}
	obs = append(obs, StructOb{Name: "C12/file-loops/enumerated", OK: nLoops > 0, Detail: fmt.Sprintf("%d loops over pass.Files found in assertion/* and annotation", nLoops)})
	rep.addStruct(obs, "cfg-dominance")
}

func isPassFiles(v ssa.Value) bool {
	u, ok := v.(*ssa.UnOp)
	if !ok {
		return false
	}
	fa, ok := u.X.(*ssa.FieldAddr)
	if !ok {
		return false
	}
	pt, ok := types.Unalias(fa.X.Type()).Underlying().(*types.Pointer)
	if !ok {
		return false
	}
	st, name, ok := structOf(pt.Elem())
	if !ok {
		return false
	}
	return st.Field(fa.Field).Name() == "Files" && strings.HasSuffix(name, "analysis.Pass")
}

func checkFileLoop(L *Loaded, x *Exec, fn *ssa.Function, ia *ssa.IndexAddr) []StructOb {
	name := fmt.Sprintf("C12/file-loop/%s@%s", shortKey(fn.RelString(nil)), L.pos(ia.Pos()))
	fail := func(msg string) []StructOb {
		return []StructOb{{Name: name + "/guarded-by-IsFileInScope", OK: false, Detail: msg, Src: L.pos(ia.Pos())}}
	}
	body := ia.Block()
	// loop head: the predecessor chain block holding the rangeindex phi that dominates the body
	var head *ssa.BasicBlock
	for _, p := range body.Preds {
		if p.Dominates(body) {
			for _, s := range p.Succs {
				_ = s
			}
			head = p
		}
	}
	if head == nil {
		return fail("cannot find the loop head")
	}
	loop := map[*ssa.BasicBlock]bool{}
	for _, b := range fn.Blocks {
		for _, s := range b.Succs {
			if s == head && head.Dominates(b) {
				// natural loop of back edge b->head
				stack := []*ssa.BasicBlock{b}
				loop[head] = true
				for len(stack) > 0 {
					n := stack[len(stack)-1]
					stack = stack[:len(stack)-1]
					if loop[n] {
						continue
					}
					loop[n] = true
					stack = append(stack, n.Preds...)
				}
			}
		}
	}
	if len(loop) == 0 {
		return fail("no back edge to the loop head")
	}
	// the file value: load of the element address
	var file ssa.Value
	for _, r := range *ia.Referrers() {
		if u, ok := r.(*ssa.UnOp); ok && u.X == ia {
			file = u
		}
	}
	if file == nil {
		return fail("element of pass.Files is not loaded")
	}
	// the guard call
	var guard *ssa.Call
	for _, r := range *file.Referrers() {
		if c, ok := r.(*ssa.Call); ok && loop[c.Block()] {
			if callee := c.Common().StaticCallee(); callee != nil && strings.HasSuffix(callee.RelString(nil), "config.Config).IsFileInScope") {
				if guard == nil || c.Block().Dominates(guard.Block()) {
					guard = c
				}
			}
		}
	}
	if guard == nil {
		// a loop without any effect (a pure search) contributes nothing by itself
		effectFree := true
		for b := range loop {
			for _, in := range b.Instrs {
				if !isPure(in, x) {
					if _, isRet := in.(*ssa.Return); !isRet {
						effectFree = false
					}
				}
			}
		}
		for _, in := range head.Instrs {
			if phi, ok := in.(*ssa.Phi); ok && phi.Comment != "rangeindex" {
				effectFree = false
			}
		}
		if effectFree {
			return []StructOb{{Name: name + "/guarded-by-IsFileInScope", OK: true, Detail: "effect-free search loop (no store, call or loop-carried value)", Src: L.pos(ia.Pos())}}
		}
		return fail("no call IsFileInScope(file) in the loop body")
	}
	gb := guard.Block()
	ifI, ok := gb.Instrs[len(gb.Instrs)-1].(*ssa.If)
	if !ok {
		return fail("the block calling IsFileInScope does not branch")
	}
	var inScope *ssa.BasicBlock
	switch c := ifI.Cond.(type) {
	case *ssa.Call:
		if c == guard {
			inScope = gb.Succs[0]
		}
	case *ssa.UnOp:
		if c.X == ssa.Value(guard) && c.Op.String() == "!" {
			inScope = gb.Succs[1]
		}
	}
	if inScope == nil {
		return fail("the branch after IsFileInScope(file) is not on its result")
	}
	// a successor with several predecessors is not a dedicated in-scope region
	if len(inScope.Preds) != 1 {
		return fail("the in-scope successor is also reachable without passing the check")
	}
	var bad []string
	var blocks []*ssa.BasicBlock
	for b := range loop {
		blocks = append(blocks, b)
	}
	sort.Slice(blocks, func(i, j int) bool { return blocks[i].Index < blocks[j].Index })
	for _, b := range blocks {
		if inScope.Dominates(b) {
			continue
		}
		for _, in := range b.Instrs {
			if in == ssa.Instruction(guard) {
				continue
			}
			if !isPure(in, x) {
				bad = append(bad, fmt.Sprintf("%s: %s", L.pos(in.Pos()), in.String()))
			}
		}
	}
	// loop-carried values on the skipping path
	for _, in := range head.Instrs {
		phi, ok := in.(*ssa.Phi)
		if !ok {
			break
		}
		if phi.Comment == "rangeindex" {
			continue
		}
		for k, pred := range head.Preds {
			if !loop[pred] || inScope.Dominates(pred) {
				continue
			}
			ev := phi.Edges[k]
			if ev == ssa.Value(phi) {
				continue
			}
			if inst, ok := ev.(ssa.Instruction); ok && loop[inst.Block()] {
				bad = append(bad, fmt.Sprintf("loop-carried %s (%s) changes on the path that skips an out-of-scope file", phi.Name(), phi.Comment))
			}
		}
	}
	if len(bad) > 0 {
		return fail("effects not guarded by the file-scope check: " + strings.Join(bad, "; "))
	}
	return []StructOb{{Name: name + "/guarded-by-IsFileInScope", OK: true, Detail: fmt.Sprintf("all effectful instructions of the %d-block loop are dominated by block %d (in-scope successor)", len(loop), inScope.Index), Src: L.pos(ia.Pos())}}
}
