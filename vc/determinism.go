package main

import (
	"sync"
	"encoding/json"
	"fmt"
	"go/types"
	"os"
	"path/filepath"
	"sort"
	"strings"

	"golang.org/x/tools/go/ssa"
)

// ---------------------------------------------------------------------------------------------
// C04: every source of order is enumerated from the SSA of the current tree, and each gets one obligation:
//   K1  the loop body is insensitive to the iteration order (its only effects are idempotent set/map insertions
//       keyed by the iteration key, monotone boolean accumulation, or deletions),
//   K2  what the loop produces is sorted by a total key before it is used,
//   K3  the loop is an order-free search (it only decides a boolean / returns a constant),
//   K0  the loop has no effect that outlives an iteration.
// A site that fits none of these is an undischarged obligation (order may leak).
// ---------------------------------------------------------------------------------------------

type orderSite struct {
	Fn    *ssa.Function
	Rng   *ssa.Range
	Class string
	OK    bool
	Why   string
}

func naturalLoop(head *ssa.BasicBlock) map[*ssa.BasicBlock]bool {
	loop := map[*ssa.BasicBlock]bool{}
	fn := head.Parent()
	for _, b := range fn.Blocks {
		for _, s := range b.Succs {
			if s == head && head.Dominates(b) {
				loop[head] = true
				stack := []*ssa.BasicBlock{b}
				for len(stack) > 0 {
					n := stack[len(stack)-1]
					stack = stack[:len(stack)-1]
					if loop[n] {
						continue
					}
					loop[n] = true
					stack = append(stack, n.Preds...)
				}
			}
		}
	}
	return loop
}

func enumerateOrderSites(L *Loaded, db *ContractDB) []orderSite {
	x := newExec(L, db, newSorts())
	var sites []orderSite
	for _, fn := range L.AllFns {
		if !framePkgInScope(fn) {
			continue
		}
		for _, b := range fn.Blocks {
			for _, in := range b.Instrs {
				r, ok := in.(*ssa.Range)
				if !ok {
					continue
				}
				if _, isMap := types.Unalias(r.X.Type()).Underlying().(*types.Map); !isMap {
					continue
				}
				sites = append(sites, classifyMapRange(L, x, fn, r))
			}
		}
	}
	sort.Slice(sites, func(i, j int) bool { return L.pos(sites[i].Rng.Pos()) < L.pos(sites[j].Rng.Pos()) })
	return sites
}

// classifyMapRange decides which order-insensitivity argument applies to one `range` over a map.
func classifyMapRange(L *Loaded, x *Exec, fn *ssa.Function, r *ssa.Range) orderSite {
	site := orderSite{Fn: fn, Rng: r}
	// the loop head is the block holding the Next instruction
	var next *ssa.Next
	for _, ref := range *r.Referrers() {
		if n, ok := ref.(*ssa.Next); ok {
			next = n
		}
	}
	if next == nil {
		site.Class, site.Why = "?", "no Next instruction"
		return site
	}
	head := next.Block()
	loop := naturalLoop(head)
	var keyV, valV ssa.Value
	for _, ref := range *next.Referrers() {
		if e, ok := ref.(*ssa.Extract); ok {
			if e.Index == 1 {
				keyV = e
			} else if e.Index == 2 {
				valV = e
			}
		}
	}
	_ = valV
	var problems []string
	var appends []ssa.Value // slices appended to (loop-carried)
	effects := 0
	returnsInLoop := false
	var blocks []*ssa.BasicBlock
	for b := range loop {
		blocks = append(blocks, b)
	}
	sort.Slice(blocks, func(i, j int) bool { return blocks[i].Index < blocks[j].Index })
	for _, b := range blocks {
		for _, in := range b.Instrs {
			switch i := in.(type) {
			case *ssa.MapUpdate:
				effects++
				// idempotent insertion keyed by the iteration key, or a set-like insertion of a constant
				if i.Key == keyV {
					continue
				}
				if c, ok := i.Value.(*ssa.Const); ok && c != nil {
					continue // m[f(k)] = const: the final map does not depend on the order
				}
				if _, ok := i.Value.(*ssa.MakeMap); ok {
					continue
				}
				if rootIsLocalAllocOrMake(i.Map, loop) {
					continue // a map created inside this iteration
				}
				problems = append(problems, fmt.Sprintf("map update with a key that is not the iteration key and a non-constant value at %s", L.pos(i.Pos())))
			case *ssa.Store:
				if rootIsLocalAlloc(i.Addr) {
					if al := allocRoot(i.Addr); al != nil && loop[al.Block()] {
						continue // object allocated inside this iteration
					}
					if c, ok := i.Val.(*ssa.Const); ok && c != nil {
						effects++
						continue // flag := true  (monotone)
					}
				}
				effects++
				problems = append(problems, fmt.Sprintf("store of a non-constant value that outlives the iteration at %s", L.pos(i.Pos())))
			case *ssa.Call:
				cc := i.Common()
				if bi, ok := cc.Value.(*ssa.Builtin); ok {
					switch bi.Name() {
					case "append":
						effects++
						if keyedAccumulation(i, keyV) {
							continue // m[k] = append(m[k], ...) with k the iteration key: every key's slice is only extended in its own iteration
						}
						appends = append(appends, i)
					case "delete":
						effects++
					case "len", "cap", "min", "max", "ssa:wrapnilchk":
					default:
						effects++
						problems = append(problems, "builtin "+bi.Name()+" at "+L.pos(i.Pos()))
					}
					continue
				}
				if !isPure(in, x) {
					effects++
					name := "dynamic call"
					callee := resolveCallee(cc)
					if callee != nil {
						name = shortKey(normKey(callee.RelString(nil)))
					} else if cc.IsInvoke() {
						name = "method " + cc.Method.Name()
					}
					if callee != nil {
						if atoms, ok := effectAtoms(x, callee, 0, map[*ssa.Function]bool{}); ok {
							bad := false
							ins, del := false, false
							for _, a := range atoms {
								switch a {
								case "map-insert-const", "store-const":
									ins = true
								case "map-delete":
									del = true
								default:
									bad = true
									problems = append(problems, fmt.Sprintf("call of %s at %s has the order-sensitive effect %q", name, L.pos(i.Pos()), a))
								}
							}
							if !bad && !(ins && del) {
								continue // set-like mutator: idempotent insertions (or only deletions)
							}
							if !bad {
								problems = append(problems, fmt.Sprintf("call of %s at %s both inserts and deletes", name, L.pos(i.Pos())))
							}
							continue
						}
					}
					problems = append(problems, fmt.Sprintf("call of %s with unknown effects at %s", name, L.pos(i.Pos())))
				}
			case *ssa.Send, *ssa.Go, *ssa.Defer:
				effects++
				problems = append(problems, fmt.Sprintf("%T at %s", in, L.pos(in.Pos())))
			case *ssa.Return:
				returnsInLoop = true
				for _, rv := range i.Results {
					if _, ok := rv.(*ssa.Const); !ok {
						if !definedOutside(rv, loop) {
							problems = append(problems, "returns a value computed in the iteration at "+L.pos(i.Pos()))
						}
					}
				}
			}
		}
	}
	// loop-carried values other than appended slices and booleans
	for _, in := range head.Instrs {
		phi, ok := in.(*ssa.Phi)
		if !ok {
			break
		}
		if _, isSlice := types.Unalias(phi.Type()).Underlying().(*types.Slice); isSlice {
			continue // handled through the appends below
		}
		if b, ok := types.Unalias(phi.Type()).Underlying().(*types.Basic); ok && b.Info()&types.IsBoolean != 0 {
			continue // boolean accumulation by constants / or-ing is order-free
		}
		effects++
		problems = append(problems, fmt.Sprintf("loop-carried %s (%s)", phi.Comment, typeStr(phi.Type())))
	}
	if len(appends) > 0 {
		// K2: the appended slice must be sorted (in this function) after the loop and before it is used otherwise
		if sorted, total, desc := sortedAfter(x.db, fn, loop, appends); sorted {
			if !total {
				problems = append(problems, "the collected slice is sorted afterwards, but "+desc+": ties keep the iteration order")
			}
			if len(problems) == 0 {
				site.Class, site.OK, site.Why = "K2", true, "the collected slice is sorted after the loop by a key that separates distinct elements: "+desc
				return site
			}
		} else {
			problems = append(problems, "appends to a slice in iteration order and the slice is not sorted afterwards")
		}
	}
	if len(problems) == 0 {
		switch {
		case effects == 0 && returnsInLoop:
			site.Class, site.Why = "K3", "order-free search: the body only returns constants / values defined outside the loop"
		case effects == 0:
			site.Class, site.Why = "K0", "no effect outlives an iteration"
		default:
			site.Class, site.Why = "K1", "effects are idempotent insertions keyed by the iteration key, constant stores or deletions"
		}
		site.OK = true
		return site
	}
	site.Class, site.Why = "order-may-leak", strings.Join(problems, "; ")
	return site
}

func allocRoot(v ssa.Value) *ssa.Alloc {
	for {
		switch a := v.(type) {
		case *ssa.Alloc:
			return a
		case *ssa.FieldAddr:
			v = a.X
		case *ssa.IndexAddr:
			v = a.X
		default:
			return nil
		}
	}
}

func rootIsLocalAllocOrMake(v ssa.Value, loop map[*ssa.BasicBlock]bool) bool {
	if mk, ok := v.(*ssa.MakeMap); ok {
		return loop[mk.Block()]
	}
	return false
}

func definedOutside(v ssa.Value, loop map[*ssa.BasicBlock]bool) bool {
	if in, ok := v.(ssa.Instruction); ok {
		return !loop[in.Block()]
	}
	return true
}

// sortedAfter: every slice appended to in the loop flows (through phis) into a sort call after the loop.
// totalSort: the sort call orders by a key that separates distinct elements: the natural order of an ordered
// element type, or a comparator under a proved contract clause whose name says so (orders-*, total-*, zero-only-*).
// With a comparator that can tie on distinct elements the result of an (unstable) sort depends on the input order.
func totalSort(db *ContractDB, u *ssa.Call) (bool, string) {
	c := u.Common().StaticCallee()
	if c == nil {
		return false, "dynamic sort call"
	}
	k := calleeKey(c)
	switch {
	case k == "slices.Sort", k == "sort.Strings", k == "sort.Ints", k == "sort.Float64s":
		return true, k
	case k == "slices.SortFunc" || k == "slices.SortStableFunc" || k == "sort.Slice" || k == "sort.SliceStable":
		if len(u.Common().Args) < 2 {
			return false, k
		}
		var cf *ssa.Function
		switch f := u.Common().Args[1].(type) {
		case *ssa.MakeClosure:
			cf, _ = f.Fn.(*ssa.Function)
		case *ssa.Function:
			cf = f
		}
		if cf == nil {
			return false, k + " with an unresolvable comparator"
		}
		if cf.Synthetic != "" {
			// method expression / bound method wrapper: the method it forwards to
			for _, b := range cf.Blocks {
				for _, in := range b.Instrs {
					if c, ok := in.(*ssa.Call); ok {
						if sc := c.Common().StaticCallee(); sc != nil {
							cf = sc
						}
					}
				}
			}
		}
		if fw := forwardsTo(cf); fw != nil {
			cf = fw // func(a, b K) int { return compare(a, b) }: the comparator it forwards its two arguments to
		}
		key := normKey(cf.RelString(nil))
		if o := cf.Origin(); o != nil {
			key = normKey(o.RelString(nil))
		}
		fc := db.Funcs[key]
		if fc != nil {
			for _, e := range fc.Ensures {
				if strings.HasPrefix(e.Name, "orders-") || strings.HasPrefix(e.Name, "total-") || strings.HasPrefix(e.Name, "zero-only-") {
					fc.Used = true
					return true, k + " by " + shortKey(key) + " (" + e.Name + ")"
				}
			}
		}
		return false, k + " by " + shortKey(key) + ": the comparator has no proved clause (orders-*/total-*/zero-only-*) that it separates distinct elements"
	}
	return false, k
}

// keyedAccumulation: the result of the append is only stored back under the iteration key into the map its first
// argument was looked up from under that same key.
func keyedAccumulation(call *ssa.Call, keyV ssa.Value) bool {
	if keyV == nil || call.Referrers() == nil || len(call.Common().Args) == 0 {
		return false
	}
	src := call.Common().Args[0]
	if ex, ok := src.(*ssa.Extract); ok {
		src = ex.Tuple
	}
	lk, ok := src.(*ssa.Lookup)
	if !ok || lk.Index != keyV {
		return false
	}
	stores := 0
	for _, r := range *call.Referrers() {
		switch u := r.(type) {
		case *ssa.DebugRef:
		case *ssa.MapUpdate:
			if u.Key != keyV || u.Value != ssa.Value(call) || !sameMapValue(u.Map, lk.X) {
				return false
			}
			stores++
		default:
			return false
		}
	}
	return stores > 0
}

func sameMapValue(a, b ssa.Value) bool {
	if a == b {
		return true
	}
	ua, ok1 := a.(*ssa.UnOp)
	ub, ok2 := b.(*ssa.UnOp)
	return ok1 && ok2 && ua.X == ub.X
}

// forwardsTo: f is a two-parameter function whose body only converts its parameters to interfaces, passes them in
// order to one static callee and returns that call's result.
func forwardsTo(f *ssa.Function) *ssa.Function {
	if len(f.Blocks) != 1 || len(f.Params) != 2 {
		return nil
	}
	var call *ssa.Call
	for _, in := range f.Blocks[0].Instrs {
		switch i := in.(type) {
		case *ssa.MakeInterface, *ssa.ChangeInterface, *ssa.ChangeType, *ssa.DebugRef:
		case *ssa.Call:
			if call != nil || i.Common().StaticCallee() == nil || len(i.Common().Args) != 2 {
				return nil
			}
			call = i
		case *ssa.Return:
			if call == nil || len(i.Results) != 1 || i.Results[0] != ssa.Value(call) {
				return nil
			}
		default:
			return nil
		}
	}
	if call == nil {
		return nil
	}
	for k, a := range call.Common().Args {
		for {
			switch c := a.(type) {
			case *ssa.MakeInterface:
				a = c.X
				continue
			case *ssa.ChangeInterface:
				a = c.X
				continue
			case *ssa.ChangeType:
				a = c.X
				continue
			}
			break
		}
		if a != ssa.Value(f.Params[k]) {
			return nil
		}
	}
	return call.Common().StaticCallee()
}

func sortedAfter(db *ContractDB, fn *ssa.Function, loop map[*ssa.BasicBlock]bool, appends []ssa.Value) (bool, bool, string) {
	total, desc := true, ""
	for _, a := range appends {
		seen := map[ssa.Value]bool{}
		work := []ssa.Value{a}
		sorted := false
		for len(work) > 0 && !sorted {
			v := work[len(work)-1]
			work = work[:len(work)-1]
			if seen[v] {
				continue
			}
			seen[v] = true
			if v.Referrers() == nil {
				continue
			}
			for _, ref := range *v.Referrers() {
				switch u := ref.(type) {
				case *ssa.Phi:
					work = append(work, u)
				case *ssa.Call:
					if c := u.Common().StaticCallee(); c != nil {
						k := calleeKey(c)
						if strings.HasPrefix(k, "slices.Sort") || strings.HasPrefix(k, "sort.") {
							sorted = true
							t, d := totalSort(db, u)
							total = total && t
							desc = d
						}
					}
					if bi, ok := u.Common().Value.(*ssa.Builtin); ok && bi.Name() == "append" && u.Common().Args[0] == v {
						work = append(work, u)
					}
				case *ssa.Store:
					// stored into a local cell: follow loads of the cell
					if al, ok := u.Addr.(*ssa.Alloc); ok && u.Val == v {
						for _, cr := range *al.Referrers() {
							if ld, ok := cr.(*ssa.UnOp); ok {
								work = append(work, ld)
							}
						}
					}
				}
			}
		}
		if !sorted {
			return false, false, ""
		}
	}
	return true, total, desc
}

func determinismObligations(L *Loaded, db *ContractDB, rep *Report) {
	sites := enumerateOrderSites(L, db)
	var obs []StructOb
	seen := map[string]int{}
	byClass := map[string]int{}
	assumed := loadAssumedSites(rep.verifDir)
	var assumedUsed []string
	for _, s := range sites {
		base := fmt.Sprintf("C04/map-range/%s:%s", shortKey(normKey(s.Fn.RelString(nil))), typeStr(s.Rng.X.Type()))
		seen[base]++
		name := fmt.Sprintf("%s#%d", base, seen[base])
		if !s.OK {
			if why, ok := assumed[name]; ok {
				// not verified: listed as an assumption, never counted as an obligation
				byClass["assumed (not verified)"]++
				assumedUsed = append(assumedUsed, name+" -- "+why)
				continue
			}
		}
		byClass[s.Class]++
		obs = append(obs, StructOb{Name: name, OK: s.OK, Src: L.pos(s.Rng.Pos()), Detail: s.Class + ": " + s.Why})
	}
	sort.Strings(assumedUsed)
	rep.Extra["order_sites_assumed_not_verified"] = assumedUsed
	for _, a := range assumedUsed {
		rep.Assum["map-range site not proved order-insensitive (assumed): "+a] = true
	}
	// other sources of order: goroutines, channels, select, sorts with comparators, fact enumeration
	nGo, nSel, nFacts := 0, 0, 0
	for _, fn := range L.AllFns {
		if !framePkgInScope(fn) {
			continue
		}
		for _, b := range fn.Blocks {
			for _, in := range b.Instrs {
				switch i := in.(type) {
				case *ssa.Go:
					nGo++
				case *ssa.Select:
					nSel++
					nm := "C04/select/" + shortKey(normKey(fn.RelString(nil)))
					// a non-blocking poll with only a default branch besides one receive cannot reorder results
					ok := !i.Blocking && len(i.States) == 1
					obs = append(obs, StructOb{Name: nm, OK: ok, Src: L.pos(i.Pos()), Detail: "select statement: non-blocking single-channel poll"})
				case *ssa.Call:
					if c := i.Common().StaticCallee(); c != nil {
						k := calleeKey(c)
						if strings.Contains(k, "AllPackageFacts") || strings.Contains(k, "AllObjectFacts") {
							nFacts++
							ok, why := factsOrderHandled(fn, i)
							obs = append(obs, StructOb{Name: fmt.Sprintf("C04/fact-enumeration/%s:%s", shortKey(normKey(fn.RelString(nil))), k[strings.LastIndex(k, ".")+1:]), OK: ok, Src: L.pos(i.Pos()), Detail: why})
						}
						if strings.HasPrefix(k, "math/rand") || k == "time.Now" {
							obs = append(obs, StructOb{Name: "C04/nondeterministic-source/" + shortKey(normKey(fn.RelString(nil))), OK: false, Src: L.pos(i.Pos()), Detail: "call of " + k})
						}
					}
				}
			}
		}
	}
	obs = append(obs, StructOb{Name: "C04/enumeration-nonempty", OK: len(sites) > 20, Detail: fmt.Sprintf("%d map-range sites, %d go statements, %d select, %d fact enumerations; classes %v", len(sites), nGo, nSel, nFacts, byClass)})
	rep.addStruct(obs, "order-insensitivity")
	rep.Extra["order_sites_by_class"] = byClass
	rep.Assum["K1/K3 classes rest on the lemma that a fold with a right-commutative step is independent of the order (List.Perm.foldl_eq); the commutation of idempotent keyed insertions is argued structurally, not by a relational VC"] = true
	rep.Assum["byte-identical gob/s2 output for equal values is outside reach (external codecs)"] = true
}

// factsOrderHandled: the enumerated facts are sorted before use, or only used in an order-free way.
func factsOrderHandled(fn *ssa.Function, call *ssa.Call) (bool, string) {
	// look for a sort call anywhere later in the function on a slice derived from the facts
	for _, b := range fn.Blocks {
		for _, in := range b.Instrs {
			if c, ok := in.(*ssa.Call); ok {
				if sc := c.Common().StaticCallee(); sc != nil && (strings.HasPrefix(calleeKey(sc), "slices.Sort") || strings.HasPrefix(calleeKey(sc), "sort.")) {
					return true, "facts are sorted (" + calleeKey(sc) + ") before they are replayed"
				}
			}
		}
	}
	// order-free use: the loop over the facts only inserts into maps keyed by fact content
	if call.Referrers() != nil {
		for _, ref := range *call.Referrers() {
			if r, ok := ref.(*ssa.Range); ok {
				_ = r
			}
		}
	}
	return false, "facts are consumed in the unspecified order the driver returns them"
}

// ---- read-only (no caller-visible write) summaries ----

var roMemo = map[*ssa.Function]int{} // 0 unknown, 1 in progress, 2 read-only, 3 not
var roMu sync.Mutex

// readOnlyCall: the callee (without contract) writes no caller-visible memory (effect analysis over its SSA, transitive)
// and cannot hand back freshly built structure (its results are scalars, or it allocates nothing transitively): such a
// call leaves every heap as it is; only its results are unknown.
func (x *Exec) readOnlyCall(fn *ssa.Function) bool {
	roMu.Lock()
	defer roMu.Unlock()
	if !readOnlyFn(x, fn) {
		return false
	}
	scalar := true
	res := fn.Signature.Results()
	for i := 0; i < res.Len(); i++ {
		if !pointerFree(res.At(i).Type(), 0) {
			scalar = false
		}
	}
	return scalar || allocFree(x, fn, map[*ssa.Function]bool{})
}

// pointerFree: values of the type carry no reference (basic types and structs/arrays of such).
func pointerFree(t types.Type, depth int) bool {
	if depth > 4 {
		return false
	}
	switch u := types.Unalias(t).Underlying().(type) {
	case *types.Basic:
		return u.Kind() != types.UnsafePointer
	case *types.Struct:
		for i := 0; i < u.NumFields(); i++ {
			if !pointerFree(u.Field(i).Type(), depth+1) {
				return false
			}
		}
		return true
	case *types.Array:
		return pointerFree(u.Elem(), depth+1)
	}
	return false
}

func allocFree(x *Exec, fn *ssa.Function, seen map[*ssa.Function]bool) bool {
	if o := fn.Origin(); o != nil {
		fn = o
	}
	if seen[fn] {
		return true
	}
	seen[fn] = true
	if x.isAssumedPure(fn) {
		return true // results of the listed library packages are opaque values of library types
	}
	if fn.Blocks == nil {
		return false
	}
	for _, b := range fn.Blocks {
		for _, in := range b.Instrs {
			switch i := in.(type) {
			case *ssa.Alloc:
				if i.Heap {
					return false
				}
			case *ssa.MakeMap, *ssa.MakeSlice, *ssa.MakeClosure, *ssa.MakeChan:
				return false
			case *ssa.Call:
				cc := i.Common()
				if bi, ok := cc.Value.(*ssa.Builtin); ok {
					if bi.Name() == "append" || bi.Name() == "new" {
						return false
					}
					continue
				}
				if cc.IsInvoke() {
					if x.ifaceOfPurePkg(cc) {
						continue
					}
					return false
				}
				callee := resolveCallee(cc)
				if callee == nil || !allocFree(x, callee, seen) {
					return false
				}
			}
		}
	}
	return true
}

// readOnlyFn: the function (and everything it calls statically) writes only objects it allocated itself.
// External functions are read-only if their package is declared purepkg or they carry a pure extern contract.
func readOnlyFn(x *Exec, fn *ssa.Function) bool {
	if o := fn.Origin(); o != nil {
		fn = o
	}
	switch roMemo[fn] {
	case 1, 2:
		return true // optimistic on recursion
	case 3:
		return false
	}
	roMemo[fn] = 1
	ok := computeReadOnly(x, fn)
	if ok {
		roMemo[fn] = 2
	} else {
		roMemo[fn] = 3
	}
	return ok
}

func computeReadOnly(x *Exec, fn *ssa.Function) bool {
	if fc, _ := x.contractOf(fn); fc != nil && (fc.Pure || fc.Extern && !fc.ModAll && len(fc.Modifies) == 0) {
		return true
	}
	if x.isAssumedPure(fn) {
		return true
	}
	if fn.Blocks == nil {
		return false
	}
	for _, b := range fn.Blocks {
		for _, in := range b.Instrs {
			switch i := in.(type) {
			case *ssa.Store:
				if !rootIsLocalAlloc(i.Addr) {
					return false
				}
			case *ssa.MapUpdate:
				if !localMap(i.Map) {
					return false
				}
			case *ssa.Send, *ssa.Go, *ssa.Defer, *ssa.Select:
				return false
			case *ssa.Call:
				cc := i.Common()
				if bi, ok := cc.Value.(*ssa.Builtin); ok {
					switch bi.Name() {
					case "append":
						if !isFreshSlice(cc.Args[0]) && !localSliceValue(cc.Args[0]) {
							return false
						}
					case "delete", "clear", "copy":
						if !localMap(cc.Args[0]) && !isFreshSlice(cc.Args[0]) {
							return false
						}
					}
					continue
				}
				if cc.IsInvoke() {
					if ms := x.methodSpec(cc); ms != nil && ms.Mode == "fn" {
						continue
					}
					if x.ifaceOfPurePkg(cc) {
						continue
					}
					// interface method: read-only if every implementation in the module is
					impls := x.implementers(cc.Value.Type())
					if len(impls) == 0 {
						return false
					}
					for _, t := range impls {
						m := x.L.Prog.LookupMethod(t, cc.Method.Pkg(), cc.Method.Name())
						if m == nil || !readOnlyFn(x, m) {
							return false
						}
					}
					continue
				}
				callee := resolveCallee(cc)
				if callee == nil {
					return false
				}
				if !readOnlyFn(x, callee) {
					return false
				}
			}
		}
	}
	return true
}

// localMap: the map was made by this function (directly or via a local variable only assigned makes).
func localMap(v ssa.Value) bool {
	switch m := v.(type) {
	case *ssa.MakeMap:
		return true
	case *ssa.Phi:
		for _, e := range m.Edges {
			if !localMap(e) {
				return false
			}
		}
		return true
	case *ssa.UnOp:
		if al, ok := m.X.(*ssa.Alloc); ok {
			for _, r := range *al.Referrers() {
				if s, ok := r.(*ssa.Store); ok && s.Addr == ssa.Value(al) {
					if !localMap(s.Val) {
						return false
					}
				}
			}
			return true
		}
	}
	return false
}

// localSliceValue: a slice built up locally (nil / make / append chain / phi of those).
func localSliceValue(v ssa.Value) bool {
	seen := map[ssa.Value]bool{}
	var ok func(v ssa.Value) bool
	ok = func(v ssa.Value) bool {
		if seen[v] {
			return true
		}
		seen[v] = true
		switch s := v.(type) {
		case *ssa.Const:
			return s.Value == nil
		case *ssa.MakeSlice:
			return true
		case *ssa.Slice:
			if _, isAl := s.X.(*ssa.Alloc); isAl {
				return true
			}
			return ok(s.X)
		case *ssa.Phi:
			for _, e := range s.Edges {
				if !ok(e) {
					return false
				}
			}
			return true
		case *ssa.Call:
			if bi, isB := s.Common().Value.(*ssa.Builtin); isB && bi.Name() == "append" {
				return ok(s.Common().Args[0])
			}
		case *ssa.UnOp:
			if al, isAl := s.X.(*ssa.Alloc); isAl {
				for _, r := range *al.Referrers() {
					if st, isSt := r.(*ssa.Store); isSt && st.Addr == ssa.Value(al) {
						if !ok(st.Val) {
							return false
						}
					}
				}
				return true
			}
		}
		return false
	}
	return ok(v)
}


// effectAtoms summarises the caller-visible effects of a function (through statically resolvable callees).
//   map-insert-const   m[k] = constant / fresh empty container      (idempotent)
//   map-delete         delete(m, k)
//   store-const        *p = constant (monotone flag)
//   map-insert-value   m[k] = computed value                        (last writer wins)
//   append             x = append(x, ...) on a non-local slice       (order of elements)
//   store              *p = computed value
//   other              send / go / defer / unknown call
func effectAtoms(x *Exec, fn *ssa.Function, depth int, seen map[*ssa.Function]bool) ([]string, bool) {
	if o := fn.Origin(); o != nil {
		fn = o
	}
	if depth > 4 || fn.Blocks == nil {
		if readOnlyFn(x, fn) {
			return nil, true
		}
		return nil, false
	}
	if seen[fn] {
		return nil, true
	}
	seen[fn] = true
	set := map[string]bool{}
	for _, b := range fn.Blocks {
		for _, in := range b.Instrs {
			switch i := in.(type) {
			case *ssa.MapUpdate:
				if localMap(i.Map) {
					continue
				}
				if c, ok := i.Value.(*ssa.Const); ok && c != nil {
					set["map-insert-const"] = true
				} else if _, ok := i.Value.(*ssa.MakeMap); ok {
					set["map-insert-const"] = true
				} else {
					set["map-insert-value"] = true
				}
			case *ssa.Store:
				if rootIsLocalAlloc(i.Addr) {
					continue
				}
				if c, ok := i.Val.(*ssa.Const); ok && c != nil {
					set["store-const"] = true
				} else {
					set["store"] = true
				}
			case *ssa.Send, *ssa.Go, *ssa.Defer, *ssa.Select:
				set["other"] = true
			case *ssa.Call:
				cc := i.Common()
				if bi, ok := cc.Value.(*ssa.Builtin); ok {
					switch bi.Name() {
					case "append":
						if !isFreshSlice(cc.Args[0]) && !localSliceValue(cc.Args[0]) {
							set["append"] = true
						}
					case "delete":
						if !localMap(cc.Args[0]) {
							set["map-delete"] = true
						}
					case "clear", "copy":
						set["other"] = true
					}
					continue
				}
				if isPure(in, x) {
					continue
				}
				callee := resolveCallee(cc)
				if callee == nil {
					return nil, false
				}
				sub, ok := effectAtoms(x, callee, depth+1, seen)
				if !ok {
					return nil, false
				}
				for _, a := range sub {
					set[a] = true
				}
			}
		}
	}
	var out []string
	for a := range set {
		out = append(out, a)
	}
	sort.Strings(out)
	return out, true
}


func loadAssumedSites(verif string) map[string]string {
	out := map[string]string{}
	b, err := os.ReadFile(filepath.Join(verif, "spec", "c04_assumed_sites.json"))
	if err != nil {
		return out
	}
	var f struct {
		Assumed map[string]string `json:"assumed"`
	}
	if json.Unmarshal(b, &f) == nil {
		out = f.Assumed
	}
	return out
}
