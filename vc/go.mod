module verif/vc

go 1.25.0

require golang.org/x/tools v0.45.0

require (
	golang.org/x/mod v0.36.0 // indirect
	golang.org/x/sync v0.20.0 // indirect
)
