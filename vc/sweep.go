package main

import (
	"flag"
	"fmt"
	"os"
	"sort"
	"strings"
	"sync"
	"time"

	"golang.org/x/tools/go/ssa"
)

// cmdSweep is a DISCOVERY tool, not a check: every function of the module is executed symbolically with no
// precondition and `modifies *`, and the implicit run-time checks of the requested kinds become obligations. A
// refuted obligation means "this needs a precondition (or it is a defect)"; the list is triaged by hand and what
// is real becomes a contract on the function (and a fix or a finding). Nothing here is reported as a violation.
func cmdSweep(args []string) int {
	fs := flag.NewFlagSet("sweep", flag.ExitOnError)
	repo := fs.String("repo", "/repo", "")
	verif := fs.String("verif", "/verif", "")
	kinds := fs.String("kinds", "index-range,slice-range", "comma-separated kinds of run-time checks")
	pkg := fs.String("pkg", "", "only functions whose key contains this")
	fs.Parse(args)
	L, db, err := loadAll(*repo, *verif)
	if err != nil {
		fmt.Fprintln(os.Stderr, err)
		return 2
	}
	km := map[string]bool{}
	for _, k := range strings.Split(*kinds, ",") {
		km[k] = true
	}
	type job struct {
		fn  *ssa.Function
		key string
	}
	var jobs []job
	for _, f := range L.AllFns {
		if !framePkgInScope(f) || len(f.Blocks) == 0 {
			continue
		}
		key := normKey(f.RelString(nil))
		if !strings.Contains(key, *pkg) {
			continue
		}
		jobs = append(jobs, job{f, key})
	}
	sort.Slice(jobs, func(i, j int) bool { return jobs[i].key < jobs[j].key })
	type hit struct{ src, name, fn string }
	var mu sync.Mutex
	hits := map[string]hit{}
	skipped := 0
	var wg sync.WaitGroup
	sem := make(chan struct{}, 6)
	t0 := time.Now()
	for _, j := range jobs {
		wg.Add(1)
		go func(j job) {
			defer wg.Done()
			sem <- struct{}{}
			defer func() { <-sem }()
			defer func() {
				if r := recover(); r != nil {
					mu.Lock()
					skipped++
					mu.Unlock()
				}
			}()
			fc := &FuncContract{Key: j.key, Props: []string{"SWEEP"}, ModAll: true, NoPanicKinds: km, Src: "sweep"}
			r := verifyFunc(L, db, j.fn, fc)
			var obs []*Obligation
			for _, ob := range r.Obs {
				if ob.Kind == "nopanic" {
					obs = append(obs, ob)
				}
			}
			if len(obs) == 0 {
				return
			}
			if len(obs) > 400 {
				obs = obs[:400]
			}
			scratch, _ := os.MkdirTemp("/var/tmp", "vcsweep")
			discharge(obs, scratch, "quick", 0)
			os.RemoveAll(scratch)
			mu.Lock()
			for _, ob := range obs {
				if ob.Result == "sat" {
					k := ob.Src + " " + ob.Name
					if _, dup := hits[k]; !dup {
						hits[k] = hit{ob.Src, ob.Name[strings.LastIndex(ob.Name, "/nopanic:")+9:], shortKey(j.key)}
						fmt.Printf("HIT %-14s %-60s %s\n", hits[k].name, ob.Src, shortKey(j.key))
					}
				}
			}
			mu.Unlock()
		}(j)
	}
	wg.Wait()
	var keys []string
	for k := range hits {
		keys = append(keys, k)
	}
	sort.Strings(keys)
	for _, k := range keys {
		h := hits[k]
		fmt.Printf("%-14s %-60s %s\n", h.name, h.src, h.fn)
	}
	fmt.Printf("%d functions, %d refuted run-time checks, %d functions skipped (engine limits), %.0fs\n", len(jobs), len(keys), skipped, time.Since(t0).Seconds())
	return 0
}
