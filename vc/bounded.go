package main

import (
	"encoding/json"
	"os"
	"os/exec"
	"path/filepath"
	"regexp"
	"strings"
	"time"
)

// BoundedCheck is a bounded exhaustive check of a real function of /repo: an in-package Go test kept in
// /verif/bounded/<prop>/<name>.go.txt, injected with `go test -overlay` (nothing is written into /repo).
// Its result is reported under coverage.bounded and NEVER counted as a discharged proof obligation.
type BoundedCheck struct {
	Prop  string
	Name  string
	Pkg   string // package directory relative to the repo root
	File  string // test file under /verif/bounded/<prop>/
	Dir   string // directory under /verif/bounded/ when the harness is shared with another property (default: Prop)
	Run   string // -run regexp
	Bound string // the stated bound
}

var boundedChecks = map[string][]BoundedCheck{
	"C02": {{Prop: "C02", Name: "canonicalize-routing", Pkg: "assertion/function/preprocess", Dir: "C19", File: "canonicalize_routing_test.go.txt", Run: "TestVerifCanonicalizeRouting",
		Bound: "the bounded routing / canonical-form check of C19 (about 2,900 conditions, all valuations) - a nil check that is routed to the wrong branch or left un-canonicalised makes a guarded dereference reported"}},
	"C05": {{Prop: "C05", Name: "engine-vs-reachability", Pkg: "inference", File: "engine_reachability_test.go.txt", Run: "TestVerifEngineReachability",
		Bound: "every set of <= 5 (quick) / <= 6 (thorough) constraints over 4 sites (sources, sinks, flows), every observation order, real Engine vs reference reachability"}},
	"C07": {{Prop: "C07", Name: "shapes-no-internal-error", Pkg: ".", File: "shapes_no_internal_error_test.go.txt", Run: "TestVerifShapesNoInternalError",
		Bound: "a fixed list of 32 assignment-target shapes, 5 call shapes of a contracted variadic function and 11 range operand kinds under the default flags, plus 12 function-literal shapes with -experimental-anonymous-function on, plus the default shapes and a package of struct shapes under 3 struct-init flag combinations, 14 method-expression calls, 4 boolean-shaped switch cases, 3 function-type conversions and 2 struct-init-v2 stable-call shapes (20 s termination limit each), run through the real analyzer: no INTERNAL diagnostic"}},
	"C19": {{Prop: "C19", Name: "canonicalize-routing", Pkg: "assertion/function/preprocess", File: "canonicalize_routing_test.go.txt", Run: "TestVerifCanonicalizeRouting",
		Bound: "every condition of a grammar of nil comparisons (both operand orders), a boolean, !, parentheses, ==/!= true/false (both operand orders), && and ||, nested to depth 2 (quick: ~3,500 conditions) / partly depth 3 (thorough), every valuation of the 3 atoms: the CFG rewritten by the real canonicalizeConditional reaches the then-branch exactly when the condition is true, and no branching block is left with a condition canonicalizeConditional is documented to rewrite"}},
	"C20": {{Prop: "C20", Name: "contracted-call-shapes", Pkg: ".", File: "contracted_call_shapes_test.go.txt", Run: "TestVerifContractedCallShapes",
		Bound: "7 one-parameter one-result callee bodies x 4 argument shapes (literal nil, nil-valued variable, maybe-nil parameter, non-nil) x 2 layouts (same package, callee in a dependency), run through the real analyzer: a dereference of the result that can panic at run time is reported"}},
	"C10": {{Prop: "C10", Name: "annotation-placement", Pkg: ".", File: "annotation_placement_test.go.txt", Run: "TestVerifAnnotationPlacement",
		Bound: "a nonnil annotation on a global variable and on a struct field, each declared plainly, in a parenthesised group of one and in a group of two specs (6 shapes), run through the real analyzer: a nil stored into the annotated site is reported in every form"}},
	"C11": {{Prop: "C11", Name: "nolint-line-directives", Pkg: ".", File: "nolint_line_directive_test.go.txt", Run: "TestVerifNoLintLineDirectives",
		Bound: "9 shapes of //nolint:nilaway comments: nested and adjacent scopes, and comments inside and outside regions governed by //line directives (over-constraint and single-assertion conflicts, statement- and function-level comments, an adjusted file:line that aliases another physical line), run through the real analyzer: exactly the findings on the comment's own physical lines are suppressed"}},
	"C12": {{Prop: "C12", Name: "doc-contains", Pkg: "util/asthelper", File: "doc_contains_test.go.txt", Run: "TestVerifDocContains",
		Bound: "13 spellings of the comments before (and after) the package clause - line, block, directive-style, after a build constraint, trailing - through the real DocContains: a file contains the excluded docstring exactly when a comment before its package clause does"}},
	"C13": {{Prop: "C13", Name: "prettyprint-strip-roundtrip", Pkg: ".", File: "prettyprint_roundtrip_test.go.txt", Run: "TestVerifPrettyPrintRoundTrip",
		Bound: "all token sequences of length <= 4 (quick) / 5 (thorough) over 11 token kinds (words, `code`, \"paths\", nilability phrases, tabs, newlines, nested quote/backtick mixes)"}},
}

func runBounded(L *Loaded, rep *Report, verif string) {
	for _, bc := range boundedChecks[rep.Prop] {
		res := map[string]any{"name": bc.Name, "bound": bc.Bound, "label": "bounded (not a proof)"}
		dirName := bc.Prop
		if bc.Dir != "" {
			dirName = bc.Dir
		}
		src := filepath.Join(verif, "bounded", dirName, bc.File)
		body, err := os.ReadFile(src)
		if err != nil {
			res["result"] = "missing harness: " + err.Error()
			rep.Bounded = append(rep.Bounded, res)
			rep.Errs = append(rep.Errs, "bounded check "+bc.Name+": "+err.Error())
			continue
		}
		scratch, _ := os.MkdirTemp(scratchBase(), "verifb.")
		tf := filepath.Join(scratch, "zz_verif_bounded_test.go")
		os.WriteFile(tf, body, 0o644)
		target := filepath.Join(L.RepoDir, bc.Pkg, "zz_verif_bounded_test.go")
		ov, _ := json.Marshal(map[string]any{"Replace": map[string]string{target: tf}})
		ovf := filepath.Join(scratch, "overlay.json")
		os.WriteFile(ovf, ov, 0o644)
		t0 := time.Now()
		limit := "600s"
		if rep.Tier == "thorough" {
			limit = "2400s" // the exhaustive C05 enumeration needs ~8 minutes alone and more when other checks run beside it
		}
		cmd := exec.Command("go", "test", "-overlay", ovf, "-vet=off", "-count=1", "-timeout", limit, "-run", bc.Run, "-v", "./"+bc.Pkg)
		cmd.Dir = L.RepoDir
		cmd.Env = append(os.Environ(), "GOPROXY=off", "VERIF_TIER="+rep.Tier)
		out, err := cmd.CombinedOutput()
		os.RemoveAll(scratch)
		res["seconds"] = round3(time.Since(t0).Seconds())
		o := string(out)
		if m := regexp.MustCompile(`VERIF-BOUNDED cases=(\d+)`).FindStringSubmatch(o); m != nil {
			res["cases"] = m[1]
		}
		if err != nil || !strings.Contains(o, "\nok") && !strings.Contains(o, "--- PASS") {
			res["result"] = "failed"
			tail := o
			if len(tail) > 3000 {
				tail = tail[len(tail)-3000:]
			}
			// a harness may name the failing cases one per line: "VERIF-BOUNDED-FAIL <case-id> :: <what happened>"
			cases := regexp.MustCompile(`(?m)^\s*(?:\S+: )?VERIF-BOUNDED-FAIL (\S+) :: (.*)$`).FindAllStringSubmatch(o, -1)
			for _, c := range cases {
				rep.StructFails = append(rep.StructFails, StructOb{Name: "bounded/" + bc.Name + ":" + c[1], OK: false, Concrete: true,
					Detail: "bounded check of the real code failed on case " + c[1] + " (the case is a concrete input, run through the real analyzer by " + src + "):\n" + c[2], Src: src})
			}
			// the named cases explain the failure only if the harness ran to its end: a crash of the test process
			// (fatal error, timeout, panic) after some named failures is a failure of its own, never to be absorbed
			// by known findings that match the named cases
			completed := strings.Contains(o, "VERIF-BOUNDED cases=")
			if len(cases) == 0 || !completed {
				rep.StructFails = append(rep.StructFails, StructOb{Name: "bounded/" + bc.Name, OK: false, Detail: "bounded check of the real function failed (the harness did not run to its end, or named no failing case):\n" + tail, Src: src})
			}
			res["failed_cases"] = len(cases)
		} else {
			res["result"] = "held on every case within the bound"
		}
		rep.Bounded = append(rep.Bounded, res)
	}
}
