package main

import (
	"bufio"
	"fmt"
	"os"
	"path/filepath"
	"sort"
	"strconv"
	"strings"
)

// Clause is one named specification clause.
type Clause struct {
	Name  string
	Props []string // property ids this clause's obligations count for (empty = function's props)
	SX    *SX
	Src   string // file:line
}

// LoopSpec holds the invariants of one loop (by ordinal of the loop head in block order).
type LoopSpec struct {
	Steps      []Clause // asserted at every back edge, may refer to the state at the loop head with (atloop e)
	Invariants []Clause
	Decreases  *SX
}

// FuncContract is the contract of one function.
type FuncContract struct {
	Key      string // canonical key (ssa RelString(nil) of the origin function)
	Base     string // for variants: the function's key
	Pkg      string // package path where the contract was written ("" for extern file)
	Extern   bool   // trusted, never verified
	Props    []string
	Requires []Clause
	Ensures  []Clause
	Modifies []string // Go type strings, or "*" (everything); nil = modifies nothing
	ModAll   bool
	NoPanic  bool
	Pure     bool // heap independent, deterministic: gets a function symbol
	Inline   bool
	Loops    map[int]*LoopSpec
	NoPanicKinds map[string]bool // only these kinds of implicit run-time checks are obligations (e.g. type-assert)
	InlineHere []string           // callees (substring of their key) inlined into this function whatever their own contract says
	InlLoops map[string]*LoopSpec // loops of inlined callees: key "<callee-substring>[#<call-site ordinal>]:<loop ordinal>"
	Asserts  map[string][]Clause // keyed by program point label
	Assume   []Clause            // explicit assumptions (listed in evidence)
	Focus    []Clause            // path restriction: ensures are proved only for paths satisfying these (they read "focus => post")
	NoBody   bool                // contract only used at call sites, body not verified (listed)
	Src      string
	Ghost    []string
	Decr     *SX
	Used     bool
}

// Macro is a spec-level definition expanded inline.
type Macro struct {
	Name   string
	Params []MacroParam
	Body   *SX
	Pkg    string
	Src    string
}

type MacroParam struct {
	Name string
	Type string // Go type string or SMT sort; "" = untyped
}

// Lemma is a closed SMT statement proved from the listed contracts.
type Lemma struct {
	Name  string
	Props []string
	Uses  []string // function keys whose pure axioms are assumed
	SX    *SX
	Pkg   string
	Src   string
}

// MethodSpec declares how an interface method call is modelled.
type MethodSpec struct {
	Iface  string // qualified interface type
	Method string
	Mode   string // "fn" (uninterpreted pure function) | "dispatch"
}

type ContractDB struct {
	Funcs   map[string]*FuncContract
	Macros  map[string]*Macro
	Lemmas  []*Lemma
	Methods map[string]*MethodSpec // key iface+"."+method
	PurePkg map[string]bool        // external packages whose functions are assumed heap-preserving
	Files   []string
	Prelude []string // raw SMT lines
	Axioms  []string // names of axioms/assumptions in the prelude (for evidence)
}

func newContractDB() *ContractDB {
	return &ContractDB{Funcs: map[string]*FuncContract{}, Macros: map[string]*Macro{}, Methods: map[string]*MethodSpec{}, PurePkg: map[string]bool{}}
}

// canonical key for a function written relative to pkg: "Name", "(*T).M", "(T).M", "Name$1"
func canonKey(pkg, rel string) string {
	if pkg == "" {
		return rel
	}
	if strings.HasPrefix(rel, "(") {
		// (*T).M or (T).M
		i := strings.Index(rel, ")")
		recv := rel[1:i]
		rest := rel[i+1:]
		if strings.Contains(recv, "/") || strings.Contains(recv, ".") && !strings.HasPrefix(recv, "*") && strings.Contains(recv[:strings.LastIndex(recv, ".")], "/") {
			return rel
		}
		star := ""
		if strings.HasPrefix(recv, "*") {
			star = "*"
			recv = recv[1:]
		}
		if strings.Contains(recv, ".") && !strings.Contains(recv, "[") {
			return rel
		}
		return "(" + star + pkg + "." + recv + ")" + rest
	}
	if strings.Contains(rel, "/") {
		return rel
	}
	// "pkgname.Func" is not allowed; plain function name
	return pkg + "." + rel
}

// loadContractFile reads //@ lines of a file. pkgPath is the package the file belongs to ("" = extern).
func (db *ContractDB) loadContractFile(path, pkgPath string) error {
	f, err := os.Open(path)
	if err != nil {
		return err
	}
	defer f.Close()
	db.Files = append(db.Files, path)
	sc := bufio.NewScanner(f)
	sc.Buffer(make([]byte, 1<<20), 1<<20)
	type rawClause struct {
		text string
		line int
	}
	var clauses []rawClause
	lineNo := 0
	for sc.Scan() {
		lineNo++
		line := sc.Text()
		t := strings.TrimSpace(line)
		var body string
		if strings.HasSuffix(path, ".contracts") {
			if t == "" {
				continue
			}
			body = line
		} else {
			if !strings.HasPrefix(t, "//@") {
				continue
			}
			body = strings.TrimPrefix(t, "//@")
			if strings.HasPrefix(body, " ") {
				body = body[1:]
			}
		}
		if strings.HasPrefix(body, " ") || strings.HasPrefix(body, "\t") {
			// continuation
			if len(clauses) > 0 {
				clauses[len(clauses)-1].text += "\n" + body
				continue
			}
		}
		body = strings.TrimSpace(body)
		if body == "" || strings.HasPrefix(body, "--") {
			continue
		}
		clauses = append(clauses, rawClause{body, lineNo})
	}
	var cur *FuncContract
	for _, rc := range clauses {
		src := fmt.Sprintf("%s:%d", filepath.Base(filepath.Dir(path))+"/"+filepath.Base(path), rc.line)
		kw, rest := splitWord(rc.text)
		fail := func(msg string, a ...any) error {
			return fmt.Errorf("%s: %s: %s", src, kw, fmt.Sprintf(msg, a...))
		}
		switch kw {
		case "func", "extern":
			key := canonKey(pkgPath, strings.TrimSpace(rest))
			if kw == "extern" {
				key = strings.TrimSpace(rest)
			}
			if db.Funcs[key] != nil {
				// a later block for the same function adds clauses
				cur = db.Funcs[key]
				continue
			}
			cur = &FuncContract{Key: key, Pkg: pkgPath, Extern: kw == "extern", Loops: map[int]*LoopSpec{}, Asserts: map[string][]Clause{}, Src: src}
			db.Funcs[key] = cur
		case "variant":
			// a second, separately verified contract of the same function (own focus / ensures)
			if cur == nil {
				return fail("no function")
			}
			v := strings.TrimSpace(rest)
			base := cur.Key
			if cur.Base != "" {
				base = cur.Base
			}
			key := base + "#" + v
			if db.Funcs[key] != nil {
				cur = db.Funcs[key]
				continue
			}
			cur = &FuncContract{Key: key, Base: base, Pkg: pkgPath, Loops: map[int]*LoopSpec{}, Asserts: map[string][]Clause{}, Src: src}
			db.Funcs[key] = cur
		case "prop":
			if cur == nil {
				return fail("no function")
			}
			cur.Props = append(cur.Props, strings.Fields(rest)...)
		case "requires":
			sx, err := parseSX(rest)
			if err != nil {
				return fail("%v", err)
			}
			cur.Requires = append(cur.Requires, Clause{Name: fmt.Sprintf("pre%d", len(cur.Requires)), SX: sx, Src: src})
		case "ensures", "assume", "focus":
			name, props, r2 := splitName(rest)
			sx, err := parseSX(r2)
			if err != nil {
				return fail("%v", err)
			}
			c := Clause{Name: name, Props: props, SX: sx, Src: src}
			switch kw {
			case "ensures":
				cur.Ensures = append(cur.Ensures, c)
			case "assume":
				cur.Assume = append(cur.Assume, c)
			case "focus":
				cur.Focus = append(cur.Focus, c)
			}
		case "assert":
			// assert <label> <name> <sx>
			label, r2 := splitWord(rest)
			name, props, r3 := splitName(r2)
			sx, err := parseSX(r3)
			if err != nil {
				return fail("%v", err)
			}
			cur.Asserts[label] = append(cur.Asserts[label], Clause{Name: name, Props: props, SX: sx, Src: src})
		case "modifies":
			for _, w := range splitTypes(rest) {
				if w == "*" {
					cur.ModAll = true
				} else {
					cur.Modifies = append(cur.Modifies, w)
				}
			}
		case "nopanic":
			cur.NoPanic = true
		case "pure":
			cur.Pure = true
		case "inline":
			cur.Inline = true
		case "nobody":
			cur.NoBody = true
		case "decreases":
			sx, err := parseSX(rest)
			if err != nil {
				return fail("%v", err)
			}
			cur.Decr = sx
		case "nopanic-kinds":
			if cur.NoPanicKinds == nil {
				cur.NoPanicKinds = map[string]bool{}
			}
			for _, k := range strings.Fields(rest) {
				cur.NoPanicKinds[k] = true
			}
		case "inline-here":
			cur.InlineHere = append(cur.InlineHere, strings.Fields(rest)...)
		case "loop":
			nS, r2 := splitWord(rest)
			sub, r3 := splitWord(r2)
			var ls *LoopSpec
			if n, err := strconv.Atoi(nS); err == nil {
				ls = cur.Loops[n]
				if ls == nil {
					ls = &LoopSpec{}
					cur.Loops[n] = ls
				}
			} else if k := strings.LastIndex(nS, ":"); k > 0 {
				// loop of an inlined callee: <callee-substring>[#<site>]:<N>
				if _, err := strconv.Atoi(nS[k+1:]); err != nil {
					return fail("bad loop ordinal %q", nS)
				}
				if cur.InlLoops == nil {
					cur.InlLoops = map[string]*LoopSpec{}
				}
				ls = cur.InlLoops[nS]
				if ls == nil {
					ls = &LoopSpec{}
					cur.InlLoops[nS] = ls
				}
			} else {
				return fail("bad loop ordinal %q", nS)
			}
			switch sub {
			case "invariant":
				name, props, r4 := splitName(r3)
				sx, err := parseSX(r4)
				if err != nil {
					return fail("%v", err)
				}
				ls.Invariants = append(ls.Invariants, Clause{Name: name, Props: props, SX: sx, Src: src})
			case "step":
				name, props, r4 := splitName(r3)
				sx, err := parseSX(r4)
				if err != nil {
					return fail("%v", err)
				}
				ls.Steps = append(ls.Steps, Clause{Name: name, Props: props, SX: sx, Src: src})
			case "decreases":
				sx, err := parseSX(r3)
				if err != nil {
					return fail("%v", err)
				}
				ls.Decreases = sx
			default:
				return fail("unknown loop clause %q", sub)
			}
		case "define":
			// define (name (x T) (y T2) ...) body
			all, err := parseSXAll(rest)
			if err != nil || len(all) != 2 || !all[0].IsL || len(all[0].List) == 0 {
				return fail("bad define: %v", err)
			}
			m := &Macro{Name: all[0].List[0].Atom, Body: all[1], Pkg: pkgPath, Src: src}
			for _, p := range all[0].List[1:] {
				if p.IsL && len(p.List) == 2 {
					m.Params = append(m.Params, MacroParam{Name: p.List[0].Atom, Type: p.List[1].String()})
				} else if !p.IsL {
					m.Params = append(m.Params, MacroParam{Name: p.Atom})
				} else {
					return fail("bad macro param %s", p)
				}
			}
			if db.Macros[m.Name] != nil {
				return fail("duplicate macro %s", m.Name)
			}
			db.Macros[m.Name] = m
		case "lemma":
			// lemma <name> [props...] uses f,g : sx
			name, props, r2 := splitName(rest)
			l := &Lemma{Name: name, Props: props, Pkg: pkgPath, Src: src}
			r2 = strings.TrimSpace(r2)
			if strings.HasPrefix(r2, "::") {
				r2 = r2[2:]
			}
			if strings.HasPrefix(r2, "uses ") {
				r2 = strings.TrimPrefix(r2, "uses ")
				i := strings.Index(r2, "(")
				// uses list ends at first '(' that begins the body on a new token "::"
				j := strings.Index(r2, "::")
				if j < 0 {
					return fail("lemma uses-list must end with ::")
				}
				_ = i
				for _, u := range strings.Fields(r2[:j]) {
					l.Uses = append(l.Uses, canonKey(pkgPath, u))
				}
				r2 = r2[j+2:]
			}
			sx, err := parseSX(r2)
			if err != nil {
				return fail("%v", err)
			}
			l.SX = sx
			db.Lemmas = append(db.Lemmas, l)
		case "method":
			// method <Iface> <Method> fn|dispatch
			w := strings.Fields(rest)
			if len(w) != 3 {
				return fail("method <iface> <name> <mode>")
			}
			ifn := w[0]
			if pkgPath != "" && !strings.Contains(ifn, ".") {
				ifn = pkgPath + "." + ifn
			}
			db.Methods[ifn+"."+w[1]] = &MethodSpec{Iface: ifn, Method: w[1], Mode: w[2]}
		case "purepkg":
			for _, w := range strings.Fields(rest) {
				db.PurePkg[w] = true
			}
		case "ghost":
			if cur != nil {
				cur.Ghost = append(cur.Ghost, rest)
			}
		default:
			return fail("unknown directive")
		}
	}
	return nil
}

func splitWord(s string) (string, string) {
	s = strings.TrimLeft(s, " \t\n")
	i := strings.IndexAny(s, " \t\n")
	if i < 0 {
		return s, ""
	}
	return s[:i], strings.TrimLeft(s[i:], " \t\n")
}

// splitName splits "name[;C01,C02] rest". The name is mandatory for ensures/invariants.
func splitName(s string) (string, []string, string) {
	w, rest := splitWord(s)
	var props []string
	if i := strings.Index(w, ";"); i >= 0 {
		props = strings.Split(w[i+1:], ",")
		w = w[:i]
	}
	return w, props, rest
}

// splitTypes splits a whitespace separated list of Go types, keeping bracketed parts together.
func splitTypes(s string) []string {
	var out []string
	depth := 0
	cur := ""
	for _, c := range s {
		switch {
		case c == '[' || c == '(':
			depth++
			cur += string(c)
		case c == ']' || c == ')':
			depth--
			cur += string(c)
		case (c == ' ' || c == '\t' || c == '\n') && depth == 0:
			if cur != "" {
				out = append(out, cur)
				cur = ""
			}
		default:
			cur += string(c)
		}
	}
	if cur != "" {
		out = append(out, cur)
	}
	return out
}

func (db *ContractDB) sortedKeys() []string {
	var ks []string
	for k := range db.Funcs {
		ks = append(ks, k)
	}
	sort.Strings(ks)
	return ks
}

func hasProp(list []string, p string) bool {
	for _, x := range list {
		if x == p {
			return true
		}
	}
	return false
}
