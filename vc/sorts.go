package main

import (
	"fmt"
	"go/types"
	"sort"
	"strings"
)

// Sorts maps Go types to SMT sorts and collects the global declarations a query needs.
type Sorts struct {
	decls     []string          // global declarations in creation order
	seen      map[string]bool   // declared symbols
	structs   map[string]*types.Struct
	tags      map[string]int    // dynamic type tag ids
	tagTypes  []types.Type
	strConsts map[string]string // go string -> smt symbol
	strOrder  []string
	globals   map[string]int
}

func newSorts() *Sorts {
	return &Sorts{seen: map[string]bool{}, structs: map[string]*types.Struct{}, tags: map[string]int{}, strConsts: map[string]string{}, globals: map[string]int{}}
}

func qualifier(p *types.Package) string { return p.Path() }

func typeStr(t types.Type) string {
	s := types.TypeString(t, qualifier)
	s = strings.ReplaceAll(s, "|", "!")
	s = strings.ReplaceAll(s, "\\", "!")
	s = strings.ReplaceAll(s, "go.uber.org/nilaway/", "")
	s = strings.ReplaceAll(s, "golang.org/x/tools/go/", "x/")
	return s
}

func q(s string) string { return "|" + strings.ReplaceAll(s, "|", "") + "|" }

func (so *Sorts) decl(sym, line string) {
	if so.seen[sym] {
		return
	}
	so.seen[sym] = true
	so.decls = append(so.decls, line)
}

// isPtrLike reports whether values of t are represented as Int references.
func isPtrLike(t types.Type) bool {
	switch u := t.Underlying().(type) {
	case *types.Pointer, *types.Map, *types.Chan, *types.Signature:
		return true
	case *types.Basic:
		return u.Kind() == types.UnsafePointer || u.Kind() == types.UntypedNil
	}
	return false
}

// sortOf returns the SMT sort of values of Go type t, declaring what is needed.
func (so *Sorts) sortOf(t types.Type) string {
	t = types.Unalias(t)
	switch tt := t.(type) {
	case *types.TypeParam:
		n := q("TP_" + tt.Obj().Name())
		so.decl(n, fmt.Sprintf("(declare-sort %s 0)", n))
		return n
	case *types.Named:
		if st, ok := tt.Underlying().(*types.Struct); ok {
			return so.structSort(typeStr(tt), st)
		}
		return so.sortOf(tt.Underlying())
	case *types.Struct:
		return so.structSort(typeStr(tt), tt)
	case *types.Basic:
		switch {
		case tt.Info()&types.IsBoolean != 0:
			return "Bool"
		case tt.Info()&types.IsString != 0:
			return "Str"
		default:
			return "Int"
		}
	case *types.Pointer, *types.Map, *types.Chan, *types.Signature:
		return "Int"
	case *types.Slice:
		return "Slice"
	case *types.Interface:
		return "Iface"
	case *types.Array:
		return "(Array Int " + so.sortOf(tt.Elem()) + ")"
	case *types.Tuple:
		return "Int" // never used as a value sort
	}
	return "Int"
}

func (so *Sorts) structSort(name string, st *types.Struct) string {
	sn := q("S:" + name)
	if so.seen[sn] {
		return sn
	}
	so.seen[sn] = true // mark first to cut (impossible) recursion
	var flds []string
	for i := 0; i < st.NumFields(); i++ {
		f := st.Field(i)
		flds = append(flds, fmt.Sprintf("(%s %s)", so.selName(name, f.Name(), i), so.sortOf(f.Type())))
	}
	so.structs[name] = st
	so.decls = append(so.decls, fmt.Sprintf("(declare-datatypes ((%s 0)) (((%s %s))))", sn, q("mk:"+name), strings.Join(flds, " ")))
	return sn
}

func (so *Sorts) selName(tname, fname string, i int) string {
	if fname == "_" {
		fname = fmt.Sprintf("_%d", i)
	}
	return q(tname + "." + fname)
}

func structOf(t types.Type) (*types.Struct, string, bool) {
	t = types.Unalias(t)
	if st, ok := t.Underlying().(*types.Struct); ok {
		return st, typeStr(t), true
	}
	return nil, "", false
}

// zero returns the zero value term of type t.
func (so *Sorts) zero(t types.Type) string {
	t = types.Unalias(t)
	if tp, ok := t.(*types.TypeParam); ok {
		s := so.sortOf(tp)
		z := q("zero:TP_" + tp.Obj().Name())
		so.decl(z, fmt.Sprintf("(declare-const %s %s)", z, s))
		return z
	}
	switch u := t.Underlying().(type) {
	case *types.Basic:
		switch {
		case u.Info()&types.IsBoolean != 0:
			return "false"
		case u.Info()&types.IsString != 0:
			return so.strConst("")
		default:
			return "0"
		}
	case *types.Struct:
		_, name, _ := structOf(t)
		so.sortOf(t)
		if u.NumFields() == 0 {
			return q("mk:" + name)
		}
		var parts []string
		for i := 0; i < u.NumFields(); i++ {
			parts = append(parts, so.zero(u.Field(i).Type()))
		}
		return "(" + q("mk:"+name) + " " + strings.Join(parts, " ") + ")"
	case *types.Slice:
		return "(mk_slice 0 0 0 0)"
	case *types.Interface:
		return "(mk_iface 0 0)"
	case *types.Array:
		return fmt.Sprintf("((as const %s) %s)", so.sortOf(t), so.zero(u.Elem()))
	}
	return "0"
}

func (so *Sorts) strConst(s string) string {
	if sym, ok := so.strConsts[s]; ok {
		return sym
	}
	if s == "" {
		so.strConsts[s] = "strempty"
		so.strOrder = append(so.strOrder, s)
		return "strempty"
	}
	clean := strings.Map(func(r rune) rune {
		if r == '|' || r == '\\' || r < 32 || r > 126 {
			return '?'
		}
		return r
	}, s)
	if len(clean) > 40 {
		clean = clean[:40]
	}
	sym := q(fmt.Sprintf("str%d:%s", len(so.strConsts), clean))
	so.strConsts[s] = sym
	so.strOrder = append(so.strOrder, s)
	so.decls = append(so.decls, fmt.Sprintf("(declare-const %s Str)", sym))
	so.decls = append(so.decls, fmt.Sprintf("(assert (= (strlen %s) %d))", sym, len(s)))
	return sym
}

// strFacts returns distinctness and prefix facts among string constants.
func (so *Sorts) strFacts() []string {
	var out []string
	if len(so.strOrder) > 1 {
		var syms []string
		for _, s := range so.strOrder {
			syms = append(syms, so.strConsts[s])
		}
		out = append(out, "(assert (distinct "+strings.Join(syms, " ")+"))")
	}
	for _, a := range so.strOrder {
		for _, b := range so.strOrder {
			v := "false"
			if strings.HasPrefix(a, b) {
				v = "true"
			}
			out = append(out, fmt.Sprintf("(assert (= (hasPrefix %s %s) %s))", so.strConsts[a], so.strConsts[b], v))
		}
	}
	return out
}

// tagOf returns the dynamic type tag (>0) of a concrete type.
func (so *Sorts) tagOf(t types.Type) int {
	t = types.Unalias(t)
	k := typeStr(t)
	if id, ok := so.tags[k]; ok {
		return id
	}
	id := len(so.tags) + 1
	so.tags[k] = id
	so.tagTypes = append(so.tagTypes, t)
	return id
}

// box converts a value of concrete type t into an interface payload (Int).
func (so *Sorts) box(t types.Type, v string) (string, string) {
	if so.sortOf(t) == "Int" {
		return v, ""
	}
	name := typeStr(t)
	b, u := q("box:"+name), q("unbox:"+name)
	s := so.sortOf(t)
	so.decl(b, fmt.Sprintf("(declare-fun %s (%s) Int)", b, s))
	so.decl(u, fmt.Sprintf("(declare-fun %s (Int) %s)", u, s))
	return fmt.Sprintf("(%s %s)", b, v), fmt.Sprintf("(= (%s (%s %s)) %s)", u, b, v, v)
}

func (so *Sorts) unbox(t types.Type, payload string) string {
	if so.sortOf(t) == "Int" {
		return payload
	}
	name := typeStr(t)
	b, u := q("box:"+name), q("unbox:"+name)
	s := so.sortOf(t)
	so.decl(b, fmt.Sprintf("(declare-fun %s (%s) Int)", b, s))
	so.decl(u, fmt.Sprintf("(declare-fun %s (Int) %s)", u, s))
	return fmt.Sprintf("(%s %s)", u, payload)
}

func (so *Sorts) globalRef(name string) string {
	id, ok := so.globals[name]
	if !ok {
		id = len(so.globals) + 1
		so.globals[name] = id
	}
	return fmt.Sprintf("(- %d)", id)
}

func (so *Sorts) tagTable() []string {
	var ks []string
	for k, v := range so.tags {
		ks = append(ks, fmt.Sprintf("; tag %d = %s", v, k))
	}
	sort.Strings(ks)
	return ks
}

const basePrelude = `
(declare-sort Str 0)
(declare-fun strlen (Str) Int)
(declare-fun strcat (Str Str) Str)
(declare-fun hasPrefix (Str Str) Bool)
(declare-fun strlt (Str Str) Bool)
(declare-const strempty Str)
(assert (= (strlen strempty) 0))
(assert (forall ((s Str)) (! (hasPrefix s strempty) :pattern ((hasPrefix s strempty)))))
(assert (forall ((s Str)) (! (>= (strlen s) 0) :pattern ((strlen s)))))
(declare-datatypes ((Slice 0)) (((mk_slice (s.arr Int) (s.off Int) (s.len Int) (s.cap Int)))))
(declare-datatypes ((Iface 0)) (((mk_iface (i.tag Int) (i.val Int)))))
(declare-fun born (Int) Int)
(declare-fun int.and (Int Int) Int)
(declare-fun int.or (Int Int) Int)
(declare-fun int.xor (Int Int) Int)
(declare-fun int.shl (Int Int) Int)
(declare-fun int.shr (Int Int) Int)
(declare-fun int.andnot (Int Int) Int)
`
