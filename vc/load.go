package main

import (
	"fmt"
	"go/ast"
	"go/token"
	"go/types"
	"os"
	"path/filepath"
	"sort"
	"strings"

	"golang.org/x/tools/go/packages"
	"golang.org/x/tools/go/ssa"
	"golang.org/x/tools/go/ssa/ssautil"
)

const modPath = "go.uber.org/nilaway"

type Loaded struct {
	Pkgs    []*packages.Package
	ByPath  map[string]*packages.Package
	Prog    *ssa.Program
	SSA     map[string]*ssa.Package
	Fset    *token.FileSet
	Funcs   map[string]*ssa.Function // by RelString(nil)
	AllFns  []*ssa.Function          // nilaway functions (incl. anonymous), sorted by key
	RepoDir string
}

func loadRepo(dir string) (*Loaded, error) {
	cfg := &packages.Config{Mode: packages.LoadAllSyntax, Dir: dir, BuildFlags: []string{"-tags=verif"}, Tests: false,
		Env: append(os.Environ(), "GOPROXY=off", "GOFLAGS=-mod=mod")}
	pkgs, err := packages.Load(cfg, "./...")
	if err != nil {
		return nil, err
	}
	var errs []string
	packages.Visit(pkgs, nil, func(p *packages.Package) {
		for _, e := range p.Errors {
			errs = append(errs, e.Error())
		}
	})
	if len(errs) > 0 {
		return nil, fmt.Errorf("package errors: %s", strings.Join(errs, "; "))
	}
	prog, spkgs := ssautil.AllPackages(pkgs, ssa.GlobalDebug)
	prog.Build()
	L := &Loaded{Pkgs: pkgs, ByPath: map[string]*packages.Package{}, Prog: prog, SSA: map[string]*ssa.Package{}, Funcs: map[string]*ssa.Function{}, RepoDir: dir}
	packages.Visit(pkgs, nil, func(p *packages.Package) { L.ByPath[p.PkgPath] = p })
	for i, p := range pkgs {
		if spkgs[i] != nil {
			L.SSA[p.PkgPath] = spkgs[i]
		}
		L.Fset = p.Fset
	}
	for fn := range ssautil.AllFunctions(prog) {
		if fn.Pkg == nil && fn.Origin() == nil && fn.Parent() == nil {
			// synthetic wrappers
			if fn.Synthetic != "" {
				continue
			}
		}
		key := normKey(fn.RelString(nil))
		if fn.Origin() != nil {
			continue // instances share the origin's contract
		}
		if _, dup := L.Funcs[key]; !dup {
			L.Funcs[key] = fn
		}
		if p := fnPkg(fn); p != nil && strings.HasPrefix(p.Path(), modPath) && fn.Synthetic == "" {
			L.AllFns = append(L.AllFns, fn)
		}
	}
	sort.Slice(L.AllFns, func(i, j int) bool { return L.AllFns[i].RelString(nil) < L.AllFns[j].RelString(nil) })
	return L, nil
}

func fnPkg(fn *ssa.Function) *types.Package {
	for fn.Parent() != nil {
		fn = fn.Parent()
	}
	if o := fn.Origin(); o != nil {
		fn = o
	}
	if fn.Pkg != nil {
		return fn.Pkg.Pkg
	}
	if fn.Object() != nil {
		return fn.Object().Pkg()
	}
	return nil
}

func (L *Loaded) pos(p token.Pos) string {
	if !p.IsValid() {
		return ""
	}
	ps := L.Fset.Position(p)
	rel, err := filepath.Rel(L.RepoDir, ps.Filename)
	if err != nil {
		rel = ps.Filename
	}
	return fmt.Sprintf("%s:%d", rel, ps.Line)
}

// contractFiles returns zz_contracts_verif.go files with their package paths.
func (L *Loaded) contractFiles() map[string]string {
	out := map[string]string{}
	for _, p := range L.Pkgs {
		for _, f := range p.GoFiles {
			if filepath.Base(f) == "zz_contracts_verif.go" {
				out[f] = p.PkgPath
			}
		}
	}
	return out
}

// evalType resolves a Go type expression in the scope of package pkgPath (trying each file's scope).
func (L *Loaded) evalType(pkgPath string, at token.Pos, expr string) (types.Type, error) {
	tv, err := L.evalExpr(pkgPath, at, expr)
	if err != nil {
		return nil, err
	}
	if !tv.IsType() {
		return nil, fmt.Errorf("%q is not a type", expr)
	}
	return tv.Type, nil
}

func (L *Loaded) evalExpr(pkgPath string, at token.Pos, expr string) (types.TypeAndValue, error) {
	p := L.ByPath[pkgPath]
	if p == nil {
		return types.TypeAndValue{}, fmt.Errorf("unknown package %q", pkgPath)
	}
	var lastErr error
	if at.IsValid() {
		tv, err := types.Eval(p.Fset, p.Types, at, expr)
		if err == nil {
			return tv, nil
		}
		lastErr = err
	}
	for _, f := range p.Syntax {
		tv, err := types.Eval(p.Fset, p.Types, endOfImports(f), expr)
		if err == nil {
			return tv, nil
		}
		lastErr = err
	}
	return types.TypeAndValue{}, lastErr
}

func endOfImports(f *ast.File) token.Pos {
	// a position inside the file scope but outside any declaration: just after the package clause/imports
	pos := f.Name.End()
	for _, d := range f.Decls {
		if g, ok := d.(*ast.GenDecl); ok && g.Tok == token.IMPORT {
			pos = g.End()
		}
	}
	return pos
}

// normKey removes type parameter lists from a function key: (*pkg.T[K, V]).M -> (*pkg.T).M
func normKey(s string) string {
	var b strings.Builder
	depth := 0
	for _, c := range s {
		switch {
		case c == '[':
			depth++
		case c == ']':
			depth--
		case depth == 0:
			b.WriteRune(c)
		}
	}
	return b.String()
}
