package main

import (
	"fmt"
	"go/types"
	"sort"
	"strings"

	"golang.org/x/tools/go/ssa"
)

func newExec(L *Loaded, db *ContractDB, so *Sorts) *Exec {
	return &Exec{L: L, db: db, so: so, heapSo: map[string]string{}, abstr: map[string]int{}, assum: map[string]bool{},
		loops: map[*ssa.BasicBlock]int{}, inLoop: map[*ssa.BasicBlock]map[*ssa.BasicBlock]bool{}, ifaceP: map[string]types.Type{},
		pureFn: map[string]bool{}, analyzedFns: map[*ssa.Function]bool{}, maxStates: 4000, dropped: map[string]int{}}
}

// FuncResult is what verifying one function produced.
type FuncResult struct {
	InlineS float64
	InlineN int
	Key     string
	Obs     []*Obligation
	Errs    []string
	Abstr   map[string]int
	Assum   []string
	Dropped map[string]int
	States  int
	Decls   []string
}

// verifyFunc generates all obligations of one function under contract.
func verifyFunc(L *Loaded, db *ContractDB, fn *ssa.Function, fc *FuncContract) *FuncResult {
	so := newSorts()
	x := newExec(L, db, so)
	x.fn, x.fc = fn, fc
	x.analyzed(fn)
	x.analyzeLoops(fn)
	key := x.funcKeyOf(fn)
	if fc.Base != "" {
		key = fc.Key
	}
	res := &FuncResult{Key: key}
	func() {
		defer func() {
			if r := recover(); r != nil {
				if se, ok := r.(specError); ok {
					x.errs = append(x.errs, key+": spec error: "+se.msg)
					return
				}
				panic(r)
			}
		}()
		st := &State{heaps: map[string]string{}, calls: map[string]int{}, ghost: map[string]Val{}}
		st.now = x.declare(st, "now", "Int")
		x.assume(st, fmt.Sprintf("(< (born 0) %s)", st.now))
		fr := &Frame{fn: fn, vals: map[ssa.Value]Val{}, locals: map[string]Val{}, oldHeap: map[string]string{}, oldNow: st.now}
		for _, p := range fn.Params {
			n := q("p:" + p.Name())
			st.add(fmt.Sprintf("(declare-const %s %s)", n, so.sortOf(p.Type())))
			v := Val{S: n, T: p.Type()}
			x.bornFact(st, v)
			fr.vals[p] = v
		}
		for _, p := range fn.FreeVars {
			n := q("fv:" + p.Name())
			st.add(fmt.Sprintf("(declare-const %s %s)", n, so.sortOf(p.Type())))
			v := Val{S: n, T: p.Type()}
			x.bornFact(st, v)
			fr.vals[p] = v
		}
		st.stack = []*Frame{fr}
		env := x.specEnv(st, fr, nil)
		for _, r := range fc.Requires {
			x.assume(st, x.evalBool(st, r.SX, env))
		}
		st.focused = map[int]bool{}
		st.callRes = map[string][]Val{}
		st.callArgs = map[string][][]Val{}
		x.applyFocus(st)
		x.emitCover(st, key+"/cover:requires-satisfiable", fc.Src)
		// syntactic frame check
		x.checkModifies(st, fn, fc, env)
		if len(fn.Blocks) == 0 {
			x.errs = append(x.errs, key+": no body")
			return
		}
		x.enterBlock(st, fn.Blocks[0], nil)
		x.run(st)
	}()
	x.emitConsistency(key)
	for l, cls := range fc.Asserts {
		for _, cl := range cls {
			if !x.assertHit[l+"/"+cl.Name] && len(x.errs) == 0 {
				x.errs = append(x.errs, fmt.Sprintf("%s: ghost assert %s %s was evaluable after no call on any explored path", key, l, cl.Name))
			}
		}
	}
	// finalise scripts: prelude + global decls + string/tag facts + path script
	header := x.header()
	for _, ob := range x.obs {
		ob.Script = header + ob.Script + "(check-sat)\n"
		if ob.Expect == "unsat" {
			ob.Script += "(get-model)\n"
		}
		ob.Bytes = len(ob.Script)
	}
	res.Obs, res.Errs, res.Abstr, res.States, res.Dropped = x.obs, x.errs, x.abstr, x.states, x.dropped
	res.InlineS, res.InlineN = x.inlineS, x.pruned
	for a := range x.assum {
		res.Assum = append(res.Assum, a)
	}
	sort.Strings(res.Assum)
	return res
}

func (x *Exec) header() string {
	var sb strings.Builder
	sb.WriteString("(set-option :produce-models true)\n(set-logic ALL)\n")
	sb.WriteString(basePrelude)
	sb.WriteString(strings.Join(x.db.Prelude, "\n"))
	sb.WriteString("\n")
	// evaluating interface predicates may register new tags; do that before printing declarations
	var ipLines []string
	names := make([]string, 0, len(x.ifaceP))
	for n := range x.ifaceP {
		names = append(names, n)
	}
	sort.Strings(names)
	for _, n := range names {
		it := x.ifaceP[n].Underlying().(*types.Interface)
		p := q("impl:" + n)
		ipLines = append(ipLines, fmt.Sprintf("(assert (not (%s 0)))", p))
		for _, t := range x.so.tagTypes {
			ipLines = append(ipLines, fmt.Sprintf("(assert (= (%s %d) %v))", p, x.so.tagOf(t), types.Implements(t, it)))
		}
	}
	sb.WriteString(strings.Join(x.so.decls, "\n"))
	sb.WriteString("\n")
	sb.WriteString(strings.Join(x.so.strFacts(), "\n"))
	sb.WriteString("\n")
	sb.WriteString(strings.Join(ipLines, "\n"))
	sb.WriteString("\n")
	sb.WriteString(strings.Join(x.so.tagTable(), "\n"))
	sb.WriteString("\n")
	return sb.String()
}

func (x *Exec) checkModifies(st *State, fn *ssa.Function, fc *FuncContract, env *Env) {
	if fc.ModAll {
		return
	}
	mods := map[string]bool{}
	all := false
	var scan func(f *ssa.Function)
	seen := map[*ssa.Function]bool{}
	scan = func(f *ssa.Function) {
		if seen[f] {
			return
		}
		seen[f] = true
		live := blocksReachingReturn(f)
		for _, b := range f.Blocks {
			if !live[b] {
				continue // only reaches panic: irrelevant for the frame of normal returns
			}
			for _, in := range b.Instrs {
				switch i := in.(type) {
				case *ssa.Alloc, *ssa.MakeMap, *ssa.MakeSlice, *ssa.MakeClosure, *ssa.MakeChan:
					continue // fresh objects are not part of the caller-visible frame
				case *ssa.Store:
					if rootIsLocalAlloc(i.Addr) {
						continue
					}
				case *ssa.MapUpdate:
					if _, ok := i.Map.(*ssa.MakeMap); ok {
						continue
					}
				case *ssa.Call:
					if bi, ok := i.Common().Value.(*ssa.Builtin); ok && bi.Name() == "append" && isFreshSlice(i.Common().Args[0]) {
						continue
					}
				}
				if x.instrModifies(in, mods) {
					all = true
					x.errs = append(x.errs, fmt.Sprintf("%s: body may modify everything at %s but contract has no 'modifies *'", x.funcKeyOf(fn), x.L.pos(in.Pos())))
				}
			}
		}
		for _, af := range f.AnonFuncs {
			scan(af)
		}
	}
	x.frameMode = true
	scan(fn)
	x.frameMode = false
	_ = all
	allowed := map[string]bool{}
	if env.results == nil {
		env.results = dummyResults(fn.Signature)
		defer func() { env.results = nil }()
	}
	for _, m := range fc.Modifies {
		for _, hn := range x.modItemHeaps(m, env) {
			allowed[hn] = true
		}
	}
	// locally allocated cells of non-escaping locals are part of every function; heaps only reachable through
	// fresh local objects cannot be told apart syntactically, so all heaps must be declared.
	var names []string
	for n := range mods {
		names = append(names, n)
	}
	sort.Strings(names)
	for _, n := range names {
		goal := "true"
		if !allowed[n] {
			goal = "false"
		}
		x.emit(st, "modifies", x.funcKeyOf(fn)+"/modifies:"+n, Clause{Src: fc.Src}, goal)
	}
}

func (x *Exec) atReturn(st *State, res []Val) {
	fr := st.top()
	env := x.specEnv(st, fr, res)
	// named results
	if sig := fr.fn.Signature; sig != nil {
		for i := 0; i < sig.Results().Len() && i < len(res); i++ {
			if n := sig.Results().At(i).Name(); n != "" && n != "_" {
				if _, clash := env.vars[n]; !clash {
					env.vars[n] = res[i]
				}
			}
		}
	}
	key := x.funcKeyOf(x.fn)
	if len(x.fc.Ensures) > 0 {
		x.reachPoint(st, "return-reachable", "some returning path is satisfiable")
	}
	// a path that returns before a focus condition became evaluable is checked unconditionally (stronger)
	var ri *ReplayInfo
	if len(st.stack) == 1 && replayable(x.fn) {
		ri = &ReplayInfo{Fn: x.fn}
		for _, p := range x.fn.Params {
			ri.Params = append(ri.Params, fr.vals[p].S)
		}
		for _, r := range res {
			ri.Results = append(ri.Results, r.S)
		}
	}
	for _, e := range x.fc.Ensures {
		t := x.evalBool(st, e.SX, env)
		n0 := len(x.obs)
		x.emit(st, "post", key+"/ensures:"+e.Name, e, t)
		for _, ob := range x.obs[n0:] {
			ob.Replay = ri
		}
		if e.SX.Head() == "=>" && len(e.SX.List) == 3 {
			// vacuity guard: the antecedent of a case-table row must be reachable on some returning path
			a := x.evalBool(st, e.SX.List[1], env)
			ob := &Obligation{Func: key, Kind: "cover-any", Name: key + "/cover:" + e.Name + "-antecedent-reachable", Props: e.Props, Path: strings.Join(st.path, "."), Src: e.Src, Expect: "sat-any"}
			if len(ob.Props) == 0 {
				ob.Props = x.fc.Props
			}
			ob.Script = strings.Join(st.lines, "\n") + "\n(assert " + a + ")\n"
			x.obs = append(x.obs, ob)
		}
	}
}

// pureAxiom renders the contract of a pure function as a quantified axiom over its function symbol.
func (x *Exec) pureAxiom(fc *FuncContract, fn *ssa.Function) string {
	sig := fn.Signature
	key := x.funcKeyOf(fn)
	sym := x.pureSym(key, fn, sig)
	names := paramNames(fn, sig)
	pts := paramTypes(sig)
	env := &Env{vars: map[string]Val{}, heaps: map[string]string{}, oheaps: map[string]string{}, now: "0", onow: "0"}
	if p := fnPkg(fn); p != nil {
		env.pkg = p.Path()
	}
	env.at = bodyPos(fn)
	var binds, as []string
	for i, n := range names {
		bn := q("ax:" + n)
		env.vars[n] = Val{S: bn, T: pts[i]}
		binds = append(binds, fmt.Sprintf("(%s %s)", bn, x.so.sortOf(pts[i])))
		as = append(as, bn)
	}
	resT := sig.Results().At(0).Type()
	call := sym
	if len(as) > 0 {
		call = "(" + sym + " " + strings.Join(as, " ") + ")"
	}
	env.results = []Val{{S: call, T: resT}}
	var pre, post []string
	for _, r := range fc.Requires {
		pre = append(pre, x.eval(r.SX, env).S)
	}
	for _, e := range fc.Ensures {
		post = append(post, x.eval(e.SX, env).S)
	}
	body := fmt.Sprintf("(=> (and true %s) (and true %s))", strings.Join(pre, " "), strings.Join(post, " "))
	if len(binds) == 0 {
		return "(assert " + body + ")"
	}
	return fmt.Sprintf("(assert (forall (%s) (! %s :pattern (%s))))", strings.Join(binds, " "), body, call)
}

// verifyLemma produces the obligation of one lemma.
func verifyLemma(L *Loaded, db *ContractDB, lm *Lemma) *FuncResult {
	so := newSorts()
	x := newExec(L, db, so)
	res := &FuncResult{Key: "lemma:" + lm.Name}
	func() {
		defer func() {
			if r := recover(); r != nil {
				if se, ok := r.(specError); ok {
					x.errs = append(x.errs, "lemma "+lm.Name+": spec error: "+se.msg)
					return
				}
				panic(r)
			}
		}()
		var lines []string
		for _, u := range lm.Uses {
			fc := db.Funcs[u]
			fn := L.Funcs[u]
			if fc == nil || fn == nil || !fc.Pure {
				x.errs = append(x.errs, fmt.Sprintf("lemma %s: uses %s which is not a pure function under contract", lm.Name, u))
				continue
			}
			fc.Used = true
			lines = append(lines, x.pureAxiom(fc, fn))
		}
		env := &Env{vars: map[string]Val{}, heaps: map[string]string{}, oheaps: map[string]string{}, now: "0", onow: "0", pkg: lm.Pkg}
		goal := x.eval(lm.SX, env).S
		ob := &Obligation{Func: "lemma:" + lm.Name, Kind: "lemma", Name: "lemma:" + lm.Name, Props: lm.Props, Src: lm.Src, Expect: "unsat"}
		ob.Script = strings.Join(lines, "\n") + "\n(assert (not " + goal + "))\n"
		x.obs = append(x.obs, ob)
	}()
	header := x.header()
	for _, ob := range x.obs {
		ob.Script = header + ob.Script + "(check-sat)\n(get-model)\n"
		ob.Bytes = len(ob.Script)
	}
	res.Obs, res.Errs = x.obs, x.errs
	return res
}

func blocksReachingReturn(f *ssa.Function) map[*ssa.BasicBlock]bool {
	live := map[*ssa.BasicBlock]bool{}
	var work []*ssa.BasicBlock
	for _, b := range f.Blocks {
		if len(b.Instrs) > 0 {
			if _, ok := b.Instrs[len(b.Instrs)-1].(*ssa.Return); ok {
				live[b] = true
				work = append(work, b)
			}
		}
	}
	for len(work) > 0 {
		b := work[len(work)-1]
		work = work[:len(work)-1]
		for _, p := range b.Preds {
			if !live[p] {
				live[p] = true
				work = append(work, p)
			}
		}
	}
	return live
}

// rootIsLocalAlloc reports whether an address is a field/element path into an object allocated in the same function.
func rootIsLocalAlloc(v ssa.Value) bool {
	for {
		switch a := v.(type) {
		case *ssa.Alloc:
			return true
		case *ssa.FieldAddr:
			v = a.X
		case *ssa.IndexAddr:
			if _, isSlice := types.Unalias(a.X.Type()).Underlying().(*types.Slice); isSlice {
				return isFreshSlice(a.X)
			}
			v = a.X
		default:
			return false
		}
	}
}

// isFreshSlice: nil constant, make(), or a slice of a local array allocation.
func isFreshSlice(v ssa.Value) bool {
	switch s := v.(type) {
	case *ssa.Const:
		return s.Value == nil
	case *ssa.MakeSlice:
		return true
	case *ssa.Slice:
		_, ok := s.X.(*ssa.Alloc)
		return ok
	}
	return false
}
