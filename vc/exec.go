package main

import (
	"strconv"
	"fmt"
	"os"
	"sync"
	"go/constant"
	"go/token"
	"go/types"
	"sort"
	"strings"

	"golang.org/x/tools/go/ssa"
)

// Val is a symbolic value.
type Val struct {
	S   string     // SMT term
	T   types.Type // Go type (nil = plain SMT value)
	Tup []Val      // tuple components
	Loc *Loc       // interior location (pointer into an object), not first class
	Fn  *ssa.Function
	Clo []Val
	Rng *Val // for range iterators: the ranged value
}

// Loc is a memory location: a base object (or slice element) plus a path of fields / array indices.
type Loc struct {
	Elem bool       // base is an element of a backing array (E heap) rather than an object (H heap)
	Ref  string     // object ref or backing array ref
	Idx  string     // element index when Elem
	BT   types.Type // type of the base object / element
	Path []PathElem
	Sl   string // originating slice term and index (for trigger-friendly element reads)
	SlIx string
}

type PathElem struct {
	Field int
	Idx   string
	IsIdx bool
	T     types.Type // type of the container at this step
}

type Frame struct {
	fn      *ssa.Function
	vals    map[ssa.Value]Val
	locals  map[string]Val
	block   *ssa.BasicBlock
	pred    *ssa.BasicBlock
	pc      int
	retTo   ssa.Value // call instruction in the parent frame
	oldHeap map[string]string
	oldNow  string
	deferred []Deferred
	awaiting bool
	loopSnap map[int]*HeapSnap
	site     int // for an inlined frame: ordinal (1-based) of the call among the caller's calls to this callee
}

// HeapSnap is the heap view at a loop head (after the havoc), for step assertions.
type HeapSnap struct {
	heaps  map[string]string
	epoch  int
	now    string
	locals map[string]Val
}

type Deferred struct {
	C    *ssa.CallCommon
	Fn   Val
	Args []Val
	Pos  token.Pos
}

type DynCall struct {
	Desc string
	Site int
	Fn   Val
	Args []Val
	Res  Val
}

type State struct {
	lines   []string
	heaps   map[string]string
	epoch   int
	now     string
	stack   []*Frame
	dyn     []DynCall
	wf      map[string]bool
	calls   map[string]int // call counts of tracked functions (concrete counts along this path)
	callRes map[string][]Val
	callArgs map[string][][]Val
	focused map[int]bool
	callLog []string // keys of the statically resolved calls, in order
	path    []string
	notes   []string
	ghost   map[string]Val
	facts   map[string]bool // top-level conjuncts of everything assumed on this path (for syntactic discharge)
}

type Obligation struct {
	Func   string
	Kind   string // post, pre, inv-entry, inv-preserve, nopanic, modifies, lemma, cover, assert
	Name   string
	Props  []string
	Script string
	Path   string
	Src    string
	Expect string // "unsat" for proof obligations, "sat" for covers
	// filled by the solver stage
	Result  string
	Solver  string
	Seconds float64
	Output  string
	Bytes   int
	Replay  *ReplayInfo
}

type Exec struct {
	modScanning map[*ssa.Function]bool // bodies being scanned by callModifies (recursion guard)
	L      *Loaded
	db     *ContractDB
	so     *Sorts
	n      int
	obs    []*Obligation
	fn     *ssa.Function
	fc     *FuncContract
	heapSo map[string]string // heap name -> sort
	heapTy map[string]types.Type
	states int
	errs   []string
	abstr  map[string]int // abstracted calls (callee key -> count)
	assum  map[string]bool
	loops  map[*ssa.BasicBlock]int // loop head -> ordinal
	inLoop map[*ssa.BasicBlock]map[*ssa.BasicBlock]bool
	ifaceP map[string]types.Type
	pureFn map[string]bool
	maxStates int
	dropped map[string]int
	analyzedFns map[*ssa.Function]bool
	pruned int
	pendingClo []Val
	inlineDepth int
	frameMode   bool
	cons        map[string]*consPoint // consistency (anti-vacuity) points, by name
	consOrder   []string
	assertHit   map[string]bool
	inlineS     float64
	consWG      sync.WaitGroup
	consMu      sync.Mutex
}

// consPoint is a point of the symbolic execution where a contract's assumptions were added to a path: after a
// callee's postcondition, after a loop invariant, at a back edge, at a return. If the path was satisfiable before the
// assumptions and is unsatisfiable after them on some visit, the assumed text is inconsistent (or the callee can never
// return there) and everything proved beyond that point is vacuous: that is reported, never silently accepted.
type consPoint struct {
	ok     bool   // some visit was satisfiable after the assumptions
	bad    string // script of a visit that was satisfiable before and unsatisfiable after
	tries  int
	okScr  string
	src    string
	reach  bool // (reachability points) point reached on some feasible path
	visits int
}

func (x *Exec) solveLines(lines []string) string { return x.solveLinesWith(lines, 1, 3) }

// refutable: can the e-matching configuration refute the path within a short limit? (it never answers sat; unknown
// comes back quickly, so the common case of a consistent path costs milliseconds)
func (x *Exec) refutable(lines []string) bool { return x.solveLinesWith(lines, 0, 2) == "unsat" }

func (x *Exec) solveLinesWith(lines []string, cfg int, limit int) string {
	f, err := os.CreateTemp(scratchBase(), "cons*.smt2")
	if err != nil {
		return "unknown"
	}
	defer os.Remove(f.Name())
	f.WriteString(x.header() + strings.Join(lines, "\n") + "\n(check-sat)\n")
	f.Close()
	r, _, el := runSolver(solvers[cfg], f.Name(), limit)
	x.pruned++
	x.inlineS += el
	return r
}

func (x *Exec) consPointOf(name, src string) *consPoint {
	if x.cons == nil {
		x.cons = map[string]*consPoint{}
	}
	cp := x.cons[name]
	if cp == nil {
		cp = &consPoint{src: src}
		x.cons[name] = cp
		x.consOrder = append(x.consOrder, name)
	}
	return cp
}

// consistencyAfter checks (asynchronously; the exploration does not depend on the answer), for the first visits of a
// point, that the assumptions added since st.lines[:before] kept a satisfiable path satisfiable.
func (x *Exec) consistencyAfter(st *State, name, src string, before int) {
	if x.frameMode || len(st.stack) == 0 {
		return
	}
	cp := x.consPointOf(name, src)
	if cp.tries >= 4 {
		return
	}
	cp.tries++
	header := x.header()
	after := strings.Join(st.lines, "\n") + "\n"
	pre := strings.Join(st.lines[:before], "\n") + "\n"
	x.consWG.Add(1)
	go func() {
		defer x.consWG.Done()
		consSem <- struct{}{}
		defer func() { <-consSem }()
		x.consMu.Lock()
		done := cp.ok || cp.bad != ""
		x.consMu.Unlock()
		if done {
			return
		}
		if solveText(header+after, 0, 2) != "unsat" {
			x.consMu.Lock()
			cp.ok, cp.okScr = true, after
			x.consMu.Unlock()
			return
		}
		if solveText(header+pre, 1, 3) == "sat" {
			x.consMu.Lock()
			cp.bad = after
			x.consMu.Unlock()
		}
	}()
}

var consSem = make(chan struct{}, 16)

// solveText runs one solver configuration on a script text (check-sat appended).
func solveText(script string, cfg, limit int) string {
	f, err := os.CreateTemp(scratchBase(), "cons*.smt2")
	if err != nil {
		return "unknown"
	}
	defer os.Remove(f.Name())
	f.WriteString(script + "(check-sat)\n")
	f.Close()
	r, _, _ := runSolver(solvers[cfg], f.Name(), limit)
	return r
}

// reachPoint records that a return or a back edge was reached, and whether on a path the solver cannot refute.
func (x *Exec) reachPoint(st *State, name, src string) {
	if x.frameMode {
		return
	}
	cp := x.consPointOf(name, src)
	cp.visits++
	if cp.tries >= 12 {
		return
	}
	cp.tries++
	header := x.header()
	text := strings.Join(st.lines, "\n") + "\n"
	x.consWG.Add(1)
	go func() {
		defer x.consWG.Done()
		consSem <- struct{}{}
		defer func() { <-consSem }()
		x.consMu.Lock()
		done := cp.ok
		x.consMu.Unlock()
		if done {
			return
		}
		r := solveText(header+text, 0, 2)
		x.consMu.Lock()
		if r != "unsat" {
			cp.ok, cp.okScr = true, text
		} else if cp.bad == "" {
			cp.bad = text
		}
		x.consMu.Unlock()
	}()
}

// emitConsistency turns the points into cover obligations: satisfied ones are recorded as covered, the others fail.
func (x *Exec) emitConsistency(key string) {
	x.consWG.Wait()
	for _, name := range x.consOrder {
		cp := x.cons[name]
		ob := &Obligation{Func: key, Kind: "cover", Name: key + "/cover:" + name, Props: x.fc.Props, Src: cp.src, Expect: "sat"}
		switch {
		case cp.ok:
			ob.Script, ob.Result, ob.Solver = cp.okScr, "unknown", "z3-new-ematch(inline, not refutable)"
		case cp.bad != "":
			ob.Script = cp.bad
		default:
			continue // never reached with a satisfiable prefix: dead code under the contract, nothing assumed there
		}
		x.obs = append(x.obs, ob)
	}
}

func (x *Exec) fresh(prefix string) string {
	x.n++
	return fmt.Sprintf("%s!%d", prefix, x.n)
}

func (st *State) add(line string) { st.lines = append(st.lines, line) }

func (st *State) clone() *State {
	n := &State{epoch: st.epoch, now: st.now}
	n.lines = append(make([]string, 0, len(st.lines)+32), st.lines...)
	n.heaps = make(map[string]string, len(st.heaps))
	for k, v := range st.heaps {
		n.heaps[k] = v
	}
	n.facts = make(map[string]bool, len(st.facts))
	for k := range st.facts {
		n.facts[k] = true
	}
	n.wf = make(map[string]bool, len(st.wf))
	for k, v := range st.wf {
		n.wf[k] = v
	}
	n.calls = make(map[string]int, len(st.calls))
	for k, v := range st.calls {
		n.calls[k] = v
	}
	n.callRes = make(map[string][]Val, len(st.callRes))
	for k, v := range st.callRes {
		n.callRes[k] = append([]Val(nil), v...)
	}
	n.callArgs = make(map[string][][]Val, len(st.callArgs))
	for k, v := range st.callArgs {
		n.callArgs[k] = append([][]Val(nil), v...)
	}
	n.focused = make(map[int]bool, len(st.focused))
	for k, v := range st.focused {
		n.focused[k] = v
	}
	n.ghost = make(map[string]Val, len(st.ghost))
	for k, v := range st.ghost {
		n.ghost[k] = v
	}
	n.callLog = append([]string(nil), st.callLog...)
	n.dyn = append([]DynCall(nil), st.dyn...)
	n.path = append([]string(nil), st.path...)
	n.notes = append([]string(nil), st.notes...)
	for _, f := range st.stack {
		nf := *f
		nf.vals = make(map[ssa.Value]Val, len(f.vals))
		for k, v := range f.vals {
			nf.vals[k] = v
		}
		nf.deferred = append([]Deferred(nil), f.deferred...)
		if f.loopSnap != nil {
			nf.loopSnap = make(map[int]*HeapSnap, len(f.loopSnap))
			for k, v := range f.loopSnap {
				nf.loopSnap[k] = v
			}
		}
		nf.locals = make(map[string]Val, len(f.locals))
		for k, v := range f.locals {
			nf.locals[k] = v
		}
		n.stack = append(n.stack, &nf)
	}
	return n
}

func (st *State) top() *Frame { return st.stack[len(st.stack)-1] }

// def introduces a name for a term.
func (x *Exec) def(st *State, sort, term string) string {
	if !strings.ContainsAny(term, " (") {
		return term
	}
	n := x.fresh("v")
	st.add(fmt.Sprintf("(define-fun %s () %s %s)", n, sort, term))
	return n
}

func (x *Exec) declare(st *State, prefix, sort string) string {
	n := x.fresh(prefix)
	st.add(fmt.Sprintf("(declare-const %s %s)", n, sort))
	return n
}

func (x *Exec) assume(st *State, cond string) {
	if cond == "" || cond == "true" {
		return
	}
	st.add("(assert " + cond + ")")
	x.recordFacts(st, cond, 0)
	if strings.Contains(cond, "@p") {
		x.aliasHeaps(st, cond)
	}
}

// recordFacts remembers the top-level conjuncts of an assumed formula: a later obligation whose goal is literally
// one of them is discharged without a solver (the symbols of a path are immutable, so an assumed formula stays true).
func (x *Exec) recordFacts(st *State, cond string, depth int) {
	if len(cond) > 400000 || depth > 6 {
		return
	}
	if st.facts == nil {
		st.facts = map[string]bool{}
	}
	t := strings.TrimSpace(cond)
	st.facts[t] = true
	if strings.HasPrefix(t, "(and ") && strings.HasSuffix(t, ")") {
		for _, c := range splitTop(t[5 : len(t)-1]) {
			x.recordFacts(st, c, depth+1)
		}
	}
}

// aliasHeaps: when an assumed formula has, as a top-level conjunct, the equality of the current (havocked) version of
// a heap with an earlier version (a `heap-unchanged` clause of a callee or of a loop invariant), later terms are
// built over the earlier symbol. This only substitutes equals for equals; it keeps frame proofs syntactic instead of
// making the solver rewrite under array equalities.
func (x *Exec) aliasHeaps(st *State, cond string) {
	var walk func(t string)
	walk = func(t string) {
		t = strings.TrimSpace(t)
		if strings.HasPrefix(t, "(and ") {
			for _, c := range splitTop(t[5 : len(t)-1]) {
				walk(c)
			}
			return
		}
		if !strings.HasPrefix(t, "(= |") {
			return
		}
		parts := splitTop(t[3 : len(t)-1])
		if len(parts) != 2 || !strings.HasPrefix(parts[0], "|") || !strings.HasPrefix(parts[1], "|") {
			return
		}
		a, b := parts[0], parts[1]
		ia, ib := strings.LastIndex(a, "@"), strings.LastIndex(b, "@")
		if ia < 0 || ib < 0 || a[:ia] != b[:ib] || a == b {
			return
		}
		name := a[1:ia]
		cur, ok := st.heaps[name]
		if !ok {
			return
		}
		if strings.HasPrefix(cur, "?") {
			cur = q(name + "@p" + cur[1:])
		}
		switch cur {
		case a:
			st.heaps[name] = b
		case b:
			// already the older one
		}
	}
	walk(cond)
}

// splitTop splits a sequence of SMT terms at top level.
func splitTop(s string) []string {
	var out []string
	depth, start, bar := 0, -1, false
	for i := 0; i < len(s); i++ {
		c := s[i]
		if bar {
			if c == '|' {
				bar = false
				if depth == 0 {
					out = append(out, s[start:i+1])
					start = -1
				}
			}
			continue
		}
		switch {
		case c == '|':
			bar = true
			if depth == 0 && start < 0 {
				start = i
			}
		case c == '(':
			if depth == 0 && start < 0 {
				start = i
			}
			depth++
		case c == ')':
			depth--
			if depth == 0 {
				out = append(out, s[start:i+1])
				start = -1
			}
		case c == ' ' || c == '\n' || c == '\t':
			if depth == 0 && start >= 0 {
				out = append(out, s[start:i])
				start = -1
			}
		default:
			if depth == 0 && start < 0 {
				start = i
			}
		}
	}
	if start >= 0 {
		out = append(out, s[start:])
	}
	return out
}

// ---- heaps ----

func (x *Exec) heapSym(st *State, name, sort string) string {
	s := heapSymIn(x, st.heaps, st.epoch, name, sort)
	st.heaps[name] = s
	x.wellFormed(st, name, sort, s, st.now)
	return s
}

// wellFormed adds, once per path and heap version, the fact that every reference stored in a heap version that
// was not built by this path (entry heap, or a heap havocked by a call or loop) was allocated before `bound`.
func (x *Exec) wellFormed(st *State, name, sort, sym, bound string) {
	if st == nil || st.wf[sym] || !strings.HasPrefix(sym, "|") {
		return
	}
	if st.wf == nil {
		st.wf = map[string]bool{}
	}
	st.wf[sym] = true
	if !(strings.HasSuffix(sym, "@0|") || strings.Contains(sym, "@e") || strings.Contains(sym, "@p")) {
		return // built by stores of this path: follows from the facts about the stored values
	}
	heapTypes.Lock()
	t := heapTypes.m[name]
	heapTypes.Unlock()
	if t == nil {
		return
	}
	rn := x.fresh("wr")
	var elem string
	var binds string
	switch {
	case strings.HasPrefix(name, "H:"):
		elem = fmt.Sprintf("(select %s %s)", sym, rn)
		binds = fmt.Sprintf("(%s Int)", rn)
	case strings.HasPrefix(name, "E:"):
		in := x.fresh("wi")
		elem = fmt.Sprintf("(select (select %s %s) %s)", sym, rn, in)
		binds = fmt.Sprintf("(%s Int) (%s Int)", rn, in)
	case strings.HasPrefix(name, "MV:"):
		kn := x.fresh("wk")
		m := t.(*types.Map)
		elem = fmt.Sprintf("(select (select %s %s) %s)", sym, rn, kn)
		binds = fmt.Sprintf("(%s Int) (%s %s)", rn, kn, x.so.sortOf(m.Key()))
		t = m.Elem()
	default:
		return
	}
	for _, f := range x.refTerms(elem, t, 0) {
		st.add(fmt.Sprintf("(assert (forall (%s) (! (< (born %s) %s) :pattern (%s))))", binds, f, bound, f))
		if strings.HasPrefix(f, "(s.arr ") {
			// every stored slice is a well-formed slice value; the nil slice has one representation
			sv := strings.TrimSuffix(strings.TrimPrefix(f, "(s.arr "), ")")
			st.add(fmt.Sprintf("(assert (forall (%s) (! (and (>= (s.len %s) 0) (>= (s.off %s) 0) (<= (s.len %s) (s.cap %s)) (=> (= (s.arr %s) 0) (= %s (mk_slice 0 0 0 0)))) :pattern (%s))))", binds, sv, sv, sv, sv, sv, sv, sv))
		}
	}
}

// refTerms lists the reference-valued sub-terms of a value of type t.
func (x *Exec) refTerms(v string, t types.Type, depth int) []string {
	if depth > 3 {
		return nil
	}
	switch x.so.sortOf(t) {
	case "Int":
		if isPtrLike(t) {
			return []string{v}
		}
		return nil
	case "Slice":
		return []string{"(s.arr " + v + ")"}
	case "Iface":
		return []string{"(i.val " + v + ")"}
	}
	if st, name, ok := structOf(t); ok {
		var out []string
		for i := 0; i < st.NumFields(); i++ {
			out = append(out, x.refTerms(fmt.Sprintf("(%s %s)", x.so.selName(name, st.Field(i).Name(), i), v), st.Field(i).Type(), depth+1)...)
		}
		return out
	}
	return nil
}

// heapSymIn resolves the current symbol of a heap in a heap view. Entries of the form "?N" are
// pending havocs of heaps that were not materialised when the havoc happened.
func heapSymIn(x *Exec, heaps map[string]string, epoch int, name, sort string) string {
	x.heapSo[name] = sort
	if s, ok := heaps[name]; ok {
		if !strings.HasPrefix(s, "?") {
			return s
		}
		sym := q(name + "@p" + s[1:])
		x.so.decl(sym, fmt.Sprintf("(declare-const %s %s)", sym, sort))
		return sym
	}
	suffix := "@0"
	if epoch != 0 {
		suffix = fmt.Sprintf("@e%d", epoch)
	}
	sym := q(name + suffix)
	x.so.decl(sym, fmt.Sprintf("(declare-const %s %s)", sym, sort))
	return sym
}

func (x *Exec) setHeap(st *State, name, sort, term string) {
	x.heapSo[name] = sort
	n := q(fmt.Sprintf("%s@%d", name, x.nextN()))
	st.add(fmt.Sprintf("(define-fun %s () %s %s)", n, sort, term))
	st.heaps[name] = n
}

func (x *Exec) nextN() int { x.n++; return x.n }

func (x *Exec) havocHeap(st *State, name string) {
	st.heaps[name] = fmt.Sprintf("?%d", x.nextN())
}

func (x *Exec) havocAll(st *State) {
	st.heaps = map[string]string{}
	st.epoch = x.nextN()
}

func (x *Exec) advanceNow(st *State) {
	n := x.declare(st, "now", "Int")
	x.assume(st, fmt.Sprintf("(>= %s %s)", n, st.now))
	st.now = n
}

var heapTypes = struct {
	sync.Mutex
	m map[string]types.Type
}{m: map[string]types.Type{}}

func regHeap(name string, t types.Type) string {
	heapTypes.Lock()
	heapTypes.m[name] = t
	heapTypes.Unlock()
	return name
}
func hName(t types.Type) string  { return regHeap("H:"+typeStr(t), t) }
func eName(t types.Type) string  { return regHeap("E:"+typeStr(t), t) }
func mdName(m *types.Map) string { return "MD:" + typeStr(m) }
func mvName(m *types.Map) string { return regHeap("MV:"+typeStr(m), m) }
func mlName(m *types.Map) string { return "ML:" + typeStr(m) }

func (x *Exec) hSort(t types.Type) string { return "(Array Int " + x.so.sortOf(t) + ")" }
func (x *Exec) eSort(t types.Type) string { return "(Array Int (Array Int " + x.so.sortOf(t) + "))" }

func isArray(t types.Type) (*types.Array, bool) {
	a, ok := types.Unalias(t).Underlying().(*types.Array)
	return a, ok
}

// baseLoad reads the base object of a location.
func (x *Exec) baseLoad(heaps map[string]string, epoch int, l *Loc) string {
	if l.Elem {
		h := heapSymIn(x, heaps, epoch, eName(l.BT), x.eSort(l.BT))
		if l.Sl != "" {
			return fmt.Sprintf("(%s %s %s %s)", x.selFn(l.BT), h, l.Sl, l.SlIx)
		}
		return fmt.Sprintf("(select (select %s %s) %s)", h, l.Ref, l.Idx)
	}
	if a, ok := isArray(l.BT); ok {
		h := heapSymIn(x, heaps, epoch, eName(a.Elem()), x.eSort(a.Elem()))
		return fmt.Sprintf("(select %s %s)", h, l.Ref)
	}
	h := heapSymIn(x, heaps, epoch, hName(l.BT), x.hSort(l.BT))
	return fmt.Sprintf("(select %s %s)", h, l.Ref)
}

// rowFrame states, in terms of the element-read function, that updating the backing array `a` leaves the elements
// of slices over other arrays unchanged (a consequence of the definition of sel; phrased so that it triggers).
func (x *Exec) rowFrame(st *State, elemT types.Type, oldE, a string) {
	name, sort := eName(elemT), x.eSort(elemT)
	newE := x.heapSym(st, name, sort)
	sel := x.selFn(elemT)
	sn, in := x.fresh("fs"), x.fresh("fi")
	st.add(fmt.Sprintf("(assert (forall ((%s Slice) (%s Int)) (! (=> (not (= (s.arr %s) %s)) (= (%s %s %s %s) (%s %s %s %s))) :pattern ((%s %s %s %s)) :pattern ((%s %s %s %s)))))", sn, in, sn, a, sel, newE, sn, in, sel, oldE, sn, in, sel, newE, sn, in, sel, oldE, sn, in))
}

// selFn declares the element-read function of slices with element type t:
// sel(E, s, i) = E[arr s][off s + i]. Using a function symbol gives quantifiers a usable trigger.
func (x *Exec) selFn(t types.Type) string {
	es := x.so.sortOf(t)
	name := q("sel:" + es)
	x.so.decl(name, fmt.Sprintf("(declare-fun %s ((Array Int (Array Int %s)) Slice Int) %s)\n(assert (forall ((E (Array Int (Array Int %s))) (s Slice) (i Int)) (! (= (%s E s i) (select (select E (s.arr s)) (+ (s.off s) i))) :pattern ((%s E s i)))))", name, es, es, es, name, name))
	return name
}

func (x *Exec) pathGet(v string, path []PathElem) string {
	for _, pe := range path {
		if pe.IsIdx {
			v = fmt.Sprintf("(select %s %s)", v, pe.Idx)
		} else {
			st, name, _ := structOf(pe.T)
			x.so.sortOf(pe.T)
			v = fmt.Sprintf("(%s %s)", x.so.selName(name, st.Field(pe.Field).Name(), pe.Field), v)
		}
	}
	return v
}

func (x *Exec) pathSet(cur string, path []PathElem, nv string) string {
	if len(path) == 0 {
		return nv
	}
	pe := path[0]
	if pe.IsIdx {
		inner := x.pathSet(fmt.Sprintf("(select %s %s)", cur, pe.Idx), path[1:], nv)
		return fmt.Sprintf("(store %s %s %s)", cur, pe.Idx, inner)
	}
	st, name, _ := structOf(pe.T)
	x.so.sortOf(pe.T)
	var parts []string
	for i := 0; i < st.NumFields(); i++ {
		sel := fmt.Sprintf("(%s %s)", x.so.selName(name, st.Field(i).Name(), i), cur)
		if i == pe.Field {
			parts = append(parts, x.pathSet(sel, path[1:], nv))
		} else {
			parts = append(parts, sel)
		}
	}
	return "(" + q("mk:"+name) + " " + strings.Join(parts, " ") + ")"
}

func (x *Exec) loadLoc(st *State, l *Loc) string {
	return x.pathGet(x.baseLoad(st.heaps, st.epoch, l), l.Path)
}

func (x *Exec) storeLoc(st *State, l *Loc, v string) {
	cur := x.baseLoad(st.heaps, st.epoch, l)
	nv := x.pathSet(cur, l.Path, v)
	if l.Elem {
		name, sort := eName(l.BT), x.eSort(l.BT)
		h := x.heapSym(st, name, sort)
		x.setHeap(st, name, sort, fmt.Sprintf("(store %s %s (store (select %s %s) %s %s))", h, l.Ref, h, l.Ref, l.Idx, nv))
		x.rowFrame(st, l.BT, h, l.Ref)
		return
	}
	if a, ok := isArray(l.BT); ok {
		name, sort := eName(a.Elem()), x.eSort(a.Elem())
		h := x.heapSym(st, name, sort)
		x.setHeap(st, name, sort, fmt.Sprintf("(store %s %s %s)", h, l.Ref, nv))
		x.rowFrame(st, a.Elem(), h, l.Ref)
		return
	}
	name, sort := hName(l.BT), x.hSort(l.BT)
	h := x.heapSym(st, name, sort)
	x.setHeap(st, name, sort, fmt.Sprintf("(store %s %s %s)", h, l.Ref, nv))
}

// locOf turns a pointer value into a location.
func (x *Exec) locOf(v Val) *Loc {
	if v.Loc != nil {
		return v.Loc
	}
	pt, ok := types.Unalias(v.T).Underlying().(*types.Pointer)
	if !ok {
		return &Loc{Ref: v.S, BT: types.Typ[types.Int]}
	}
	return &Loc{Ref: v.S, BT: pt.Elem()}
}

func (x *Exec) freshRef(st *State) string {
	r := x.declare(st, "r", "Int")
	x.assume(st, fmt.Sprintf("(and (> %s 0) (= (born %s) %s))", r, r, st.now))
	st.now = x.def(st, "Int", fmt.Sprintf("(+ %s 1)", st.now))
	return r
}

// bornFact adds the fact that every reference in v was allocated before now.
func (x *Exec) bornFact(st *State, v Val) {
	if v.T == nil || v.Loc != nil || v.Fn != nil {
		return
	}
	switch x.so.sortOf(v.T) {
	case "Int":
		if isPtrLike(v.T) {
			x.assume(st, fmt.Sprintf("(< (born %s) %s)", v.S, st.now))
		}
	case "Slice":
		x.assume(st, fmt.Sprintf("(and (< (born (s.arr %s)) %s) (>= (s.len %s) 0) (>= (s.off %s) 0) (<= (s.len %s) (s.cap %s)) (=> (= (s.arr %s) 0) (= %s (mk_slice 0 0 0 0))))", v.S, st.now, v.S, v.S, v.S, v.S, v.S, v.S))
	case "Iface":
		x.assume(st, fmt.Sprintf("(and (< (born (i.val %s)) %s) (>= (i.tag %s) 0) (=> (= (i.tag %s) 0) (= (i.val %s) 0)))", v.S, st.now, v.S, v.S, v.S))
	}
}

// ---- values ----

func (x *Exec) constVal(c *ssa.Const) Val {
	t := c.Type()
	if c.Value == nil {
		return Val{S: x.so.zero(t), T: t}
	}
	switch c.Value.Kind() {
	case constant.Bool:
		if constant.BoolVal(c.Value) {
			return Val{S: "true", T: t}
		}
		return Val{S: "false", T: t}
	case constant.String:
		return Val{S: x.so.strConst(constant.StringVal(c.Value)), T: t}
	case constant.Int:
		s := c.Value.ExactString()
		if strings.HasPrefix(s, "-") {
			s = "(- " + s[1:] + ")"
		}
		return Val{S: s, T: t}
	}
	// floats etc: opaque
	sym := q("const:" + c.Value.ExactString())
	x.so.decl(sym, fmt.Sprintf("(declare-const %s Int)", sym))
	return Val{S: sym, T: t}
}

func (x *Exec) get(st *State, v ssa.Value) Val {
	fr := st.top()
	switch vv := v.(type) {
	case *ssa.Const:
		return x.constVal(vv)
	case *ssa.Global:
		return Val{S: x.so.globalRef(vv.Pkg.Pkg.Path() + "." + vv.Name()), T: vv.Type()}
	case *ssa.Function:
		sym := q("fn:" + vv.RelString(nil))
		x.so.decl(sym, fmt.Sprintf("(declare-const %s Int)", sym))
		return Val{S: sym, T: vv.Type(), Fn: vv}
	case *ssa.Builtin:
		return Val{S: "0", T: vv.Type()}
	}
	if val, ok := fr.vals[v]; ok {
		return val
	}
	// value not defined on this path (should not happen)
	x.errs = append(x.errs, fmt.Sprintf("%s: undefined value %s (%T)", fr.fn.Name(), v.Name(), v))
	return x.havocVal(st, v.Type(), "undef")
}

func (x *Exec) havocVal(st *State, t types.Type, why string) Val {
	if tup, ok := t.(*types.Tuple); ok {
		var vs []Val
		for i := 0; i < tup.Len(); i++ {
			vs = append(vs, x.havocVal(st, tup.At(i).Type(), why))
		}
		return Val{Tup: vs, T: t}
	}
	s := x.declare(st, "h", x.so.sortOf(t))
	v := Val{S: s, T: t}
	x.bornFact(st, v)
	return v
}

func (x *Exec) bind(st *State, instr ssa.Value, v Val) {
	if v.Tup == nil && v.Loc == nil && v.S != "" && v.T != nil {
		v.S = x.def(st, x.so.sortOf(v.T), v.S)
	}
	st.top().vals[instr] = v
}

// ---- loops ----

func (x *Exec) analyzeLoops(fn *ssa.Function) {
	// loop heads in block index order; natural loop bodies
	for _, b := range fn.Blocks {
		for _, s := range b.Succs {
			if s.Dominates(b) {
				if _, ok := x.loops[s]; !ok {
					x.loops[s] = -1
				}
				body := x.inLoop[s]
				if body == nil {
					body = map[*ssa.BasicBlock]bool{s: true}
					x.inLoop[s] = body
				}
				// collect natural loop of back edge b->s
				stack := []*ssa.BasicBlock{b}
				for len(stack) > 0 {
					n := stack[len(stack)-1]
					stack = stack[:len(stack)-1]
					if body[n] {
						continue
					}
					body[n] = true
					stack = append(stack, n.Preds...)
				}
			}
		}
	}
	var heads []*ssa.BasicBlock
	for h := range x.loops {
		if h.Parent() == fn && x.loops[h] == -1 {
			heads = append(heads, h)
		}
	}
	sort.Slice(heads, func(i, j int) bool { return heads[i].Index < heads[j].Index })
	for i, h := range heads {
		x.loops[h] = i
	}
}

// loopModifies returns the set of heap names modified in the loop and whether everything may be.
func (x *Exec) loopModifies(st *State, h *ssa.BasicBlock) (map[string]bool, bool) {
	mods := map[string]bool{}
	all := false
	var blocks []*ssa.BasicBlock
	for b := range x.inLoop[h] {
		blocks = append(blocks, b)
	}
	for _, b := range blocks {
		for _, in := range b.Instrs {
			a := x.instrModifies(in, mods)
			all = all || a
		}
	}
	return mods, all
}

func (x *Exec) storeHeapName(addr ssa.Value) string {
	// find the root of the address expression
	switch a := addr.(type) {
	case *ssa.FieldAddr:
		return x.storeHeapName(a.X)
	case *ssa.IndexAddr:
		switch u := types.Unalias(a.X.Type()).Underlying().(type) {
		case *types.Slice:
			return eName(u.Elem())
		case *types.Pointer:
			if _, ok := a.X.(*ssa.FieldAddr); ok {
				return x.storeHeapName(a.X)
			}
			if arr, ok := isArray(u.Elem()); ok {
				return eName(arr.Elem())
			}
		}
	}
	if pt, ok := types.Unalias(addr.Type()).Underlying().(*types.Pointer); ok {
		if arr, ok := isArray(pt.Elem()); ok {
			return eName(arr.Elem())
		}
		return hName(pt.Elem())
	}
	return ""
}

func (x *Exec) instrModifies(in ssa.Instruction, mods map[string]bool) bool {
	switch i := in.(type) {
	case *ssa.Store:
		if n := x.storeHeapName(i.Addr); n != "" {
			mods[n] = true
		}
	case *ssa.Alloc:
		t := i.Type().(*types.Pointer).Elem()
		if arr, ok := isArray(t); ok {
			mods[eName(arr.Elem())] = true
		} else {
			mods[hName(t)] = true
		}
	case *ssa.MapUpdate:
		if m, ok := types.Unalias(i.Map.Type()).Underlying().(*types.Map); ok {
			mods[mdName(m)], mods[mvName(m)], mods[mlName(m)] = true, true, true
		}
	case *ssa.MakeMap:
		if m, ok := types.Unalias(i.Type()).Underlying().(*types.Map); ok {
			mods[mdName(m)], mods[mvName(m)], mods[mlName(m)] = true, true, true
		}
	case *ssa.MakeSlice:
		mods[eName(types.Unalias(i.Type()).Underlying().(*types.Slice).Elem())] = true
	case *ssa.Go, *ssa.Defer:
		return true
	case *ssa.Call:
		return x.callModifies(i.Common(), mods)
	}
	return false
}

func (x *Exec) callModifies(c *ssa.CallCommon, mods map[string]bool) bool {
	if b, ok := c.Value.(*ssa.Builtin); ok {
		switch b.Name() {
		case "append", "copy", "clear":
			if len(c.Args) > 0 {
				if s, ok := types.Unalias(c.Args[0].Type()).Underlying().(*types.Slice); ok {
					mods[eName(s.Elem())] = true
				}
				if m, ok := types.Unalias(c.Args[0].Type()).Underlying().(*types.Map); ok {
					mods[mdName(m)], mods[mvName(m)], mods[mlName(m)] = true, true, true
				}
			}
		case "delete":
			if m, ok := types.Unalias(c.Args[0].Type()).Underlying().(*types.Map); ok {
				mods[mdName(m)], mods[mvName(m)], mods[mlName(m)] = true, true, true
			}
		}
		return false
	}
	if c.IsInvoke() {
		if ms := x.methodSpec(c); ms != nil && (ms.Mode == "fn" || ms.Mode == "log") {
			return false
		} else if ms != nil && ms.Mode == "dispatch" {
			// the union of what the implementations' contracts may modify
			all := false
			for _, t := range x.implementers(c.Value.Type()) {
				m := x.L.Prog.LookupMethod(t, c.Method.Pkg(), c.Method.Name())
				if m == nil {
					continue
				}
				fc, _ := x.contractOf(m)
				if fc == nil && m.Synthetic != "" {
					if sel := x.L.Prog.MethodSets.MethodSet(t).Lookup(c.Method.Pkg(), c.Method.Name()); sel != nil {
						if fo, ok := sel.Obj().(*types.Func); ok {
							if decl := x.L.Prog.FuncValue(fo); decl != nil {
								m = decl
								fc, _ = x.contractOf(decl)
							}
						}
					}
				}
				if fc == nil {
					continue
				}
				if fc.ModAll {
					all = true
					continue
				}
				for _, mi := range fc.Modifies {
					for _, hn := range x.modHeapNames(mi, m, nil) {
						mods[hn] = true
					}
				}
			}
			return all
		}
		if x.ifaceOfPurePkg(c) {
			return false
		}
		return true
	}
	callee := c.StaticCallee()
	if callee == nil {
		if mc, ok := c.Value.(*ssa.MakeClosure); ok {
			callee = mc.Fn.(*ssa.Function)
		} else if rc := resolveCallee(c); rc != nil {
			callee = rc
		} else {
			return !x.dynPure()
		}
	}
	fc, key := x.contractOf(callee)
	inlineHere := false
	if x.fc != nil && callee.Blocks != nil {
		for _, sub := range x.fc.InlineHere {
			if strings.Contains(key, sub) {
				inlineHere = true
			}
		}
	}
	if inlineHere {
		if x.modScanning[callee] {
			return false
		}
		if x.modScanning == nil {
			x.modScanning = map[*ssa.Function]bool{}
		}
		x.modScanning[callee] = true
		defer delete(x.modScanning, callee)
		all := false
		for _, b := range callee.Blocks {
			for _, in := range b.Instrs {
				all = x.instrModifies(in, mods) || all
			}
		}
		return all
	}
	if fc != nil {
		if fc.ModAll {
			return true
		}
		for _, m := range fc.Modifies {
			for _, hn := range x.modHeapNames(m, callee, c) {
				mods[hn] = true
			}
		}
		return false
	}
	if x.isAssumedPure(callee) {
		return false
	}
	if !(callee.Blocks != nil && x.inlinable(callee)) && x.readOnlyCall(callee) {
		return false
	}
	_ = key
	if !(callee.Blocks != nil && x.inlinable(callee)) && !x.frameMode {
		// no contract, not inlined: the transitive frame summary of its body
		sm, all := x.modSummary(callee)
		for hn := range sm {
			mods[hn] = true
		}
		return all
	}
	// inlined: scan body
	if callee.Blocks != nil && x.inlinable(callee) {
		if x.modScanning[callee] {
			return false // a recursive call adds nothing to the union the enclosing scan of this body collects
		}
		if x.modScanning == nil {
			x.modScanning = map[*ssa.Function]bool{}
		}
		x.modScanning[callee] = true
		defer delete(x.modScanning, callee)
		all := false
		for _, b := range callee.Blocks {
			for _, in := range b.Instrs {
				if x.frameMode {
					// caller-visible frame only: fresh objects of the inlined callee do not count
					switch i := in.(type) {
					case *ssa.Alloc, *ssa.MakeMap, *ssa.MakeSlice, *ssa.MakeClosure, *ssa.MakeChan:
						continue
					case *ssa.Store:
						if rootIsLocalAlloc(i.Addr) {
							continue
						}
					case *ssa.MapUpdate:
						if localMap(i.Map) {
							continue
						}
					}
				}
				all = x.instrModifies(in, mods) || all
			}
		}
		return all
	}
	return true
}

// ifaceOfPurePkg: the invoked method belongs to an interface declared in one of the library packages whose functions
// are assumed not to write caller-visible memory (go/types.Type.Underlying, go/types.Object.Name, ...).
func (x *Exec) ifaceOfPurePkg(c *ssa.CallCommon) bool {
	return c.IsInvoke() && c.Method != nil && c.Method.Pkg() != nil && x.db.PurePkg[c.Method.Pkg().Path()]
}

func (x *Exec) dynPure() bool { return x.fc != nil && x.fc.hasGhost("dyncalls-pure") }

// modSummary is the transitive frame of a function without contract, computed from its SSA: the heaps (by pointee
// type) it may write or allocate in, following static calls, resolvable closures and the module's implementations of
// interface methods; all=true when something unknown is reached (a dynamic call, an external function outside the
// listed library packages, go/defer). Callees under contract contribute their `modifies`. The summary of a function
// is cached only for the function the query started from (members of a cycle are not cached with partial results).
var modSumMemo = struct {
	sync.Mutex
	m map[*ssa.Function]*modSum
}{m: map[*ssa.Function]*modSum{}}

type modSum struct {
	heaps map[string]bool
	all   bool
}

func (x *Exec) modSummary(fn *ssa.Function) (map[string]bool, bool) {
	if o := fn.Origin(); o != nil {
		fn = o
	}
	modSumMemo.Lock()
	if r := modSumMemo.m[fn]; r != nil {
		modSumMemo.Unlock()
		return r.heaps, r.all
	}
	modSumMemo.Unlock()
	heaps := map[string]bool{}
	seen := map[*ssa.Function]bool{}
	all := x.modSumWalk(fn, heaps, seen, 0)
	modSumMemo.Lock()
	modSumMemo.m[fn] = &modSum{heaps, all}
	modSumMemo.Unlock()
	return heaps, all
}

func (x *Exec) modSumWalk(fn *ssa.Function, heaps map[string]bool, seen map[*ssa.Function]bool, depth int) bool {
	inst := fn // the instantiation, whose signature has concrete types
	if o := fn.Origin(); o != nil {
		fn = o
	}
	if fc, _ := x.contractOf(fn); fc != nil && depth > 0 {
		// a callee under contract contributes its modifies clause (evaluated for this instantiation)
		if fc.ModAll {
			return true
		}
		for _, m := range fc.Modifies {
			for _, hn := range x.modHeapNames(m, inst, nil) {
				heaps[hn] = true
			}
		}
		return false
	}
	if seen[fn] {
		return false
	}
	seen[fn] = true
	if depth > 12 || len(seen) > 400 {
		return true
	}
	if x.isAssumedPure(fn) {
		return false
	}
	if fn.Blocks == nil {
		return true
	}
	all := false
	for _, b := range fn.Blocks {
		for _, in := range b.Instrs {
			switch i := in.(type) {
			case *ssa.Go, *ssa.Defer, *ssa.Select, *ssa.Send:
				return true
			case *ssa.Call:
				c := i.Common()
				if _, ok := c.Value.(*ssa.Builtin); ok {
					x.callModifies(c, heaps)
					continue
				}
				if c.IsInvoke() {
					if ms := x.methodSpec(c); ms != nil && (ms.Mode == "fn" || ms.Mode == "log") {
						continue
					}
					if x.ifaceOfPurePkg(c) {
						continue
					}
					impls := x.implementers(c.Value.Type())
					if len(impls) == 0 {
						return true
					}
					for _, t := range impls {
						m := x.L.Prog.LookupMethod(t, c.Method.Pkg(), c.Method.Name())
						if m == nil {
							return true
						}
						if x.modSumWalk(m, heaps, seen, depth+1) {
							return true
						}
					}
					continue
				}
				callee := c.StaticCallee()
				if callee == nil {
					if mc, ok := c.Value.(*ssa.MakeClosure); ok {
						callee = mc.Fn.(*ssa.Function)
					} else if rc := resolveCallee(c); rc != nil {
						callee = rc
					} else {
						return true
					}
				}
				if x.modSumWalk(callee, heaps, seen, depth+1) {
					return true
				}
			case *ssa.MakeClosure:
				// a closure created here may be called by a callee: its effects are part of this function's frame
				if cf, ok := i.Fn.(*ssa.Function); ok {
					if x.modSumWalk(cf, heaps, seen, depth+1) {
						return true
					}
				}
			default:
				if x.instrModifies(in, heaps) {
					all = true
				}
			}
		}
	}
	return all
}

func (fc *FuncContract) hasGhost(s string) bool {
	for _, g := range fc.Ghost {
		if strings.TrimSpace(g) == s {
			return true
		}
	}
	return false
}

// ---- stepping ----

func (x *Exec) isBackEdge(from, to *ssa.BasicBlock) bool {
	_, isHead := x.loops[to]
	return isHead && to.Dominates(from)
}

// enterBlock moves the top frame to block b coming from pred. Returns false if the path ends here.
func (x *Exec) enterBlock(st *State, b, pred *ssa.BasicBlock) bool {
	fr := st.top()
	st.path = append(st.path, fmt.Sprintf("%d", b.Index))
	// phi values from the edge
	var phis []*ssa.Phi
	var incoming []Val
	predIdx := -1
	for i, p := range b.Preds {
		if p == pred {
			predIdx = i
		}
	}
	for _, in := range b.Instrs {
		phi, ok := in.(*ssa.Phi)
		if !ok {
			break
		}
		phis = append(phis, phi)
		incoming = append(incoming, x.get(st, phi.Edges[predIdx]))
	}
	ord, isHead := x.loops[b]
	if !isHead {
		for i, phi := range phis {
			x.bind(st, phi, incoming[i])
			if phi.Comment != "" {
				fr.locals[phi.Comment] = fr.vals[phi]
			}
		}
		fr.block, fr.pred, fr.pc = b, pred, len(phis)
		return true
	}
	// loop head
	spec := x.loopSpec(fr.fn, ord)
	envOf := func() *Env { return x.specEnv(st, fr, nil) }
	if il := x.inlinedLoopSpec(st, fr, ord); il != nil {
		// the caller's contract gives this inlined loop's invariants (they talk about the caller's state)
		spec = il
		envOf = func() *Env { return x.inlinedEnv(st, fr) }
	}
	back := b.Dominates(pred) && pred != nil && x.inLoop[b][pred]
	// temporarily bind phis to incoming values for invariant evaluation
	for i, phi := range phis {
		x.bind(st, phi, incoming[i])
		if phi.Comment != "" {
			fr.locals[phi.Comment] = fr.vals[phi]
			fr.locals[fmt.Sprintf("%s@%d", phi.Comment, ord)] = fr.vals[phi] // name@N: the variable of loop N (nested loops)
		}
	}
	kind := "inv-entry"
	if back {
		kind = "inv-preserve"
	}
	if !back && x.fc != nil && len(st.stack) == 1 {
		// ghost asserts `assert at-entry:<N> <name> <sx>`: what holds when loop N is reached (before its first iteration)
		l := fmt.Sprintf("at-entry:%d", ord)
		for _, cl := range x.fc.Asserts[l] {
			cl := cl
			func() {
				defer func() {
					if r := recover(); r != nil {
						if _, ok := r.(specError); ok {
							return
						}
						panic(r)
					}
				}()
				t := x.evalBool(st, cl.SX, x.specEnv(st, fr, nil))
				if x.assertHit == nil {
					x.assertHit = map[string]bool{}
				}
				x.assertHit[l+"/"+cl.Name] = true
				x.emit(st, "assert", fmt.Sprintf("%s/assert:%s@entry-of-loop%d", x.funcKeyOf(x.fn), cl.Name, ord), cl, t)
				x.assume(st, t)
			}()
		}
	}
	fname := x.funcKeyOf(fr.fn)
	if spec == nil {
		x.dropped[fmt.Sprintf("loop %d of %s cut with invariant 'true'", ord, shortKey(fname))]++
	} else {
		for _, inv := range spec.Invariants {
			t := x.evalBool(st, inv.SX, envOf())
			x.emit(st, kind, fmt.Sprintf("%s/loop%d:%s", fname, ord, inv.Name), inv, t)
		}
	}
	if back {
		if spec != nil && len(st.stack) == 1 {
			x.reachPoint(st, fmt.Sprintf("loop%d-body-completes", ord), "loop body reaches its back edge on a satisfiable path")
		}
		if spec != nil {
			for _, stp := range spec.Steps {
				env := envOf()
				if snap := fr.loopSnap[ord]; snap != nil {
					env.lheaps, env.lepoch, env.lnow, env.llocals = snap.heaps, snap.epoch, snap.now, snap.locals
				}
				t := x.evalBool(st, stp.SX, env)
				x.emit(st, "loop-step", fmt.Sprintf("%s/loop%d:step:%s", fname, ord, stp.Name), stp, t)
			}
		}
		return false
	}
	// havoc
	mods, all := x.loopModifies(st, b)
	if all {
		x.havocAll(st)
	} else {
		names := make([]string, 0, len(mods))
		for n := range mods {
			names = append(names, n)
		}
		sort.Strings(names)
		for _, n := range names {
			x.havocHeap(st, n)
		}
	}
	x.advanceNow(st)
	for _, phi := range phis {
		v := x.havocVal(st, phi.Type(), "phi")
		fr.vals[phi] = v
		if phi.Comment != "" {
			fr.locals[phi.Comment] = v
			fr.locals[fmt.Sprintf("%s@%d", phi.Comment, ord)] = v
		}
	}
	if spec != nil {
		nb := len(st.lines)
		for _, inv := range spec.Invariants {
			t := x.evalBool(st, inv.SX, envOf())
			x.assume(st, t)
		}
		if len(st.stack) == 1 {
			x.consistencyAfter(st, fmt.Sprintf("loop%d-invariant-consistent", ord), x.L.pos(b.Instrs[0].Pos()), nb)
		}
	}
	if fr.loopSnap == nil {
		fr.loopSnap = map[int]*HeapSnap{}
	}
	hs := make(map[string]string, len(st.heaps))
	for k, v := range st.heaps {
		hs[k] = v
	}
	ls := make(map[string]Val, len(fr.locals))
	for k, v := range fr.locals {
		ls[k] = v
	}
	fr.loopSnap[ord] = &HeapSnap{heaps: hs, epoch: st.epoch, now: st.now, locals: ls}
	fr.block, fr.pred, fr.pc = b, pred, len(phis)
	return true
}

func (x *Exec) loopSpec(fn *ssa.Function, ord int) *LoopSpec {
	fc, _ := x.contractOf(fn)
	if fc == nil {
		return nil
	}
	return fc.Loops[ord]
}

// inlinedLoopSpec: the contract of the function under verification may give the invariants of a loop of an inlined
// callee (`loop <callee-substring>[#<site>]:<N> invariant ...`): they are about the caller's state and are evaluated
// in the caller's environment extended with the callee's parameters and locals.
func (x *Exec) inlinedLoopSpec(st *State, fr *Frame, ord int) *LoopSpec {
	if x.fc == nil || len(x.fc.InlLoops) == 0 || len(st.stack) < 2 || fr == st.stack[0] {
		return nil
	}
	key := x.funcKeyOf(fr.fn)
	for k, ls := range x.fc.InlLoops {
		c := strings.LastIndex(k, ":")
		n, _ := strconv.Atoi(k[c+1:])
		if n != ord {
			continue
		}
		name, site := k[:c], 0
		if h := strings.LastIndex(name, "#"); h >= 0 {
			if sn, err := strconv.Atoi(name[h+1:]); err == nil {
				name, site = name[:h], sn
			}
		}
		if strings.Contains(key, name) && (site == 0 || site == fr.site) {
			return ls
		}
	}
	return nil
}

// inlinedEnv: the environment of the function under verification, extended with the parameters and locals of the
// inlined frame (which do not shadow the caller's names).
func (x *Exec) inlinedEnv(st *State, fr *Frame) *Env {
	env := x.specEnv(st, st.stack[0], nil)
	ne := env.child()
	for _, p := range fr.fn.Params {
		if _, clash := ne.vars[p.Name()]; !clash {
			ne.vars[p.Name()] = fr.vals[p]
		}
	}
	merged := map[string]Val{}
	for k, v := range st.stack[0].locals {
		merged[k] = v
	}
	for k, v := range fr.locals {
		merged[k] = v // the innermost loop variables are those of the inlined frame
	}
	nf := *st.stack[0]
	nf.locals = merged
	ne.fr = &nf
	return ne
}

func (x *Exec) funcKeyOf(fn *ssa.Function) string {
	if o := fn.Origin(); o != nil {
		fn = o
	}
	return normKey(fn.RelString(nil))
}

func (x *Exec) contractOf(fn *ssa.Function) (*FuncContract, string) {
	key := x.funcKeyOf(fn)
	return x.db.Funcs[key], key
}

func (x *Exec) emit(st *State, kind, name string, c Clause, goal string) {
	// split top-level conjunctions into separate, smaller queries
	if strings.HasPrefix(goal, "(and ") {
		if sx, err := parseSX(goal); err == nil && sx.Head() == "and" && len(sx.List) > 2 {
			for i, part := range sx.List[1:] {
				if part.String() == "true" {
					continue
				}
				x.emit(st, kind, fmt.Sprintf("%s#%d", name, i+1), c, part.String())
			}
			return
		}
	}
	if strings.HasPrefix(goal, "(let ") {
		// (let (binds) (and a b)) -> (let (binds) a), (let (binds) b)
		if sx, err := parseSX(goal); err == nil && len(sx.List) == 3 {
			body := sx.List[2]
			if (body.Head() == "and" && len(body.List) > 2) || (body.Head() == "=>" && len(body.List) == 3 && body.List[2].Head() == "and") {
				var parts []*SX
				if body.Head() == "and" {
					parts = body.List[1:]
				} else {
					for _, p := range body.List[2].List[1:] {
						parts = append(parts, list(atom("=>"), body.List[1], p))
					}
				}
				for i, part := range parts {
					if part.String() == "true" {
						continue
					}
					x.emit(st, kind, fmt.Sprintf("%s#%d", name, i+1), c, "(let "+sx.List[1].String()+" "+part.String()+")")
				}
				return
			}
		}
	}
	if strings.HasPrefix(goal, "(=> ") {
		if sx, err := parseSX(goal); err == nil && len(sx.List) == 3 && sx.List[2].Head() == "and" && len(sx.List[2].List) > 2 {
			for i, part := range sx.List[2].List[1:] {
				if part.String() == "true" {
					continue
				}
				x.emit(st, kind, fmt.Sprintf("%s#%d", name, i+1), c, "(=> "+sx.List[1].String()+" "+part.String()+")")
			}
			return
		}
	}
	if strings.HasPrefix(goal, "(forall ") {
		// (forall B (and a b)) -> (forall B a), (forall B b); (forall B (=> p (and a b))) -> (forall B (=> p a)), ...
		if sx, err := parseSX(goal); err == nil && len(sx.List) == 3 {
			body := sx.List[2]
			var parts []*SX
			if body.Head() == "and" && len(body.List) > 2 {
				parts = body.List[1:]
			} else if body.Head() == "=>" && len(body.List) == 3 {
				// peel a chain of implications: (=> p (=> q (and a b)))
				var ants []*SX
				cur := body
				for cur.Head() == "=>" && len(cur.List) == 3 {
					ants = append(ants, cur.List[1])
					cur = cur.List[2]
				}
				if cur.Head() == "and" && len(cur.List) > 2 {
					for _, p := range cur.List[1:] {
						t := p
						for k := len(ants) - 1; k >= 0; k-- {
							t = list(atom("=>"), ants[k], t)
						}
						parts = append(parts, t)
					}
				}
			}
			if len(parts) > 0 {
				for i, part := range parts {
					if part.String() == "true" {
						continue
					}
					x.emit(st, kind, fmt.Sprintf("%s#%d", name, i+1), c, "(forall "+sx.List[1].String()+" "+part.String()+")")
				}
				return
			}
		}
	}
	props := c.Props
	if len(props) == 0 && x.fc != nil {
		props = x.fc.Props
	}
	ob := &Obligation{Func: x.funcKeyOf(x.fn), Kind: kind, Name: name, Props: props, Path: strings.Join(st.path, "."), Src: c.Src, Expect: "unsat"}
	if st.facts[strings.TrimSpace(goal)] {
		// the goal is literally a formula assumed earlier on this path
		ob.Result, ob.Solver = "unsat", "syntactic"
		ob.Script = "; goal is a conjunct assumed on this path: " + name + "\n"
		x.obs = append(x.obs, ob)
		return
	}
	ob.Script = strings.Join(st.lines, "\n") + "\n(assert (not " + goal + "))\n"
	x.obs = append(x.obs, ob)
}

func (x *Exec) emitCover(st *State, name string, src string) {
	ob := &Obligation{Func: x.funcKeyOf(x.fn), Kind: "cover", Name: name, Props: x.fc.Props, Path: strings.Join(st.path, "."), Src: src, Expect: "sat"}
	ob.Script = strings.Join(st.lines, "\n") + "\n"
	x.obs = append(x.obs, ob)
}

// run explores all paths from the initial state.
func (x *Exec) run(init *State) {
	work := []*State{init}
	for len(work) > 0 {
		st := work[len(work)-1]
		work = work[:len(work)-1]
		x.states++
		if x.states > x.maxStates {
			x.errs = append(x.errs, fmt.Sprintf("%s: path cap %d exceeded", x.funcKeyOf(x.fn), x.maxStates))
			return
		}
		succ := x.step(st)
		work = append(work, succ...)
	}
}

// step runs the top frame until a branch, returning successor states.
func (x *Exec) step(st *State) []*State {
	for {
		fr := st.top()
		if fr.pc >= len(fr.block.Instrs) {
			return nil
		}
		in := fr.block.Instrs[fr.pc]
		fr.pc++
		switch i := in.(type) {
		case *ssa.If:
			c := x.get(st, i.Cond)
			tb, fb := fr.block.Succs[0], fr.block.Succs[1]
			if x.fc != nil && x.fc.hasGhost("merge-simple-branches") && len(st.stack) == 1 {
				if x.mergeSimpleBranch(st, fr, c, tb, fb) {
					continue
				}
			}
			var out []*State
			prune := x.fc != nil && len(x.fc.Focus) > 0 && len(st.focused) > 0
			s2 := st.clone()
			x.assume(s2, "(not "+c.S+")")
			cur := fr.block
			x.loopExitAsserts(s2, cur, fb)
			if !(prune && !x.feasible(s2)) && x.enterBlock(s2, fb, cur) {
				out = append(out, s2)
			}
			x.assume(st, c.S)
			x.loopExitAsserts(st, cur, tb)
			if !(prune && !x.feasible(st)) && x.enterBlock(st, tb, cur) {
				out = append(out, st)
			}
			return out
		case *ssa.Jump:
			if !x.enterBlock(st, fr.block.Succs[0], fr.block) {
				return nil
			}
		case *ssa.Return:
			var res []Val
			for _, r := range i.Results {
				res = append(res, x.get(st, r))
			}
			if len(st.stack) == 1 {
				x.atReturn(st, res)
				return nil
			}
			callInstr := fr.retTo
			st.stack = st.stack[:len(st.stack)-1]
			if callInstr != nil {
				var rv Val
				if len(res) == 1 {
					rv = res[0]
				} else {
					rv = Val{Tup: res, T: callInstr.Type()}
				}
				st.top().vals[callInstr] = rv
			}
		case *ssa.Panic:
			if len(st.stack) >= 1 && x.fc != nil && x.fc.NoPanic {
				x.emit(st, "nopanic", x.funcKeyOf(x.fn)+"/nopanic:explicit-panic", Clause{Src: x.L.pos(i.Pos())}, "false")
			}
			x.atPanic(st)
			return nil
		default:
			if !x.instr(st, in) {
				return nil
			}
		}
	}
}

func (x *Exec) atPanic(st *State) {}

// mergeSimpleBranch executes an `if c { T }` whose body T is a single block of stores and pure computations that
// falls through to the join block, WITHOUT forking the path: T runs under the assumption c, every fact it adds is
// guarded by c afterwards, and each heap it changed becomes ite(c, heap-after-T, heap-before).  Opt-in per contract
// (`ghost merge-simple-branches`): call counters are not branch-sensitive in a merged branch, so contracts that
// count calls must not use it.  Returns false (nothing done) when the shape does not fit.
func (x *Exec) mergeSimpleBranch(st *State, fr *Frame, c Val, tb, fb *ssa.BasicBlock) bool {
	T, J, cond := tb, fb, c.S
	fits := func(T, J *ssa.BasicBlock) bool {
		if len(T.Preds) != 1 || len(T.Succs) != 1 || T.Succs[0] != J || T == J {
			return false
		}
		if _, isHead := x.loops[T]; isHead {
			return false
		}
		if _, isHead := x.loops[J]; isHead {
			return false
		}
		for _, in := range J.Instrs {
			if _, ok := in.(*ssa.Phi); ok {
				return false
			}
		}
		for _, in := range T.Instrs {
			switch i := in.(type) {
			case *ssa.FieldAddr, *ssa.IndexAddr, *ssa.Store, *ssa.UnOp, *ssa.BinOp, *ssa.Extract, *ssa.Field, *ssa.Index,
				*ssa.DebugRef, *ssa.Jump, *ssa.Convert, *ssa.ChangeType, *ssa.MakeInterface, *ssa.Slice, *ssa.Lookup:
			case *ssa.Call:
				callee := i.Common().StaticCallee()
				if callee == nil {
					return false
				}
				fc, _ := x.contractOf(callee)
				if !(fc != nil && fc.Pure) && !x.isAssumedPure(callee) {
					return false
				}
			default:
				return false
			}
		}
		return true
	}
	if !fits(T, J) {
		T, J, cond = fb, tb, "(not "+c.S+")"
		if !fits(T, J) {
			return false
		}
	}
	before := make(map[string]string, len(st.heaps))
	for k, v := range st.heaps {
		before[k] = v
	}
	epoch0 := st.epoch
	guardAt := len(st.lines)
	st.add("(assert " + cond + ")")
	cur := fr.block
	if !x.enterBlock(st, T, cur) {
		return false
	}
	for fr.pc < len(T.Instrs) {
		in := T.Instrs[fr.pc]
		fr.pc++
		if _, ok := in.(*ssa.Jump); ok {
			break
		}
		if !x.instr(st, in) || len(st.stack) != 1 {
			x.errs = append(x.errs, fmt.Sprintf("%s: merge-simple-branches: block %d did not run straight", x.funcKeyOf(x.fn), T.Index))
			return true
		}
	}
	if st.epoch != epoch0 {
		x.errs = append(x.errs, fmt.Sprintf("%s: merge-simple-branches: block %d havocked every heap", x.funcKeyOf(x.fn), T.Index))
		return true
	}
	// facts added inside T hold under the branch condition only
	st.lines[guardAt] = "; merged branch: " + cond
	for k := guardAt + 1; k < len(st.lines); k++ {
		if strings.HasPrefix(st.lines[k], "(assert ") {
			st.lines[k] = "(assert (=> " + cond + " " + strings.TrimSuffix(strings.TrimPrefix(st.lines[k], "(assert "), ")") + "))"
		}
	}
	st.facts = nil // recorded conjuncts of the guarded region are no longer unconditional
	// heaps changed by T
	names := map[string]bool{}
	for k := range st.heaps {
		names[k] = true
	}
	for k := range before {
		names[k] = true
	}
	var sorted []string
	for k := range names {
		sorted = append(sorted, k)
	}
	sort.Strings(sorted)
	for _, n := range sorted {
		if st.heaps[n] == before[n] {
			continue
		}
		so := x.heapSo[n]
		if so == "" {
			continue
		}
		after := heapSymIn(x, st.heaps, st.epoch, n, so)
		prev := heapSymIn(x, before, epoch0, n, so)
		x.setHeap(st, n, so, fmt.Sprintf("(ite %s %s %s)", cond, after, prev))
	}
	if !x.enterBlock(st, J, T) {
		return true
	}
	return true
}

// loopExitAsserts proves, then assumes, the contract's `assert at-exit:<N> <name> <sx>` clauses on the edge that
// leaves loop N from its head (ghost asserts: what the finished loop established, stated once).
func (x *Exec) loopExitAsserts(st *State, head, to *ssa.BasicBlock) {
	if x.fc == nil || len(x.fc.Asserts) == 0 || len(st.stack) != 1 || x.frameMode {
		return
	}
	ord, isHead := x.loops[head]
	if !isHead || x.inLoop[head][to] || to == head {
		return
	}
	l := fmt.Sprintf("at-exit:%d", ord)
	cls := x.fc.Asserts[l]
	if len(cls) == 0 {
		return
	}
	if x.assertHit == nil {
		x.assertHit = map[string]bool{}
	}
	fr := st.top()
	for _, cl := range cls {
		cl := cl
		func() {
			defer func() {
				if r := recover(); r != nil {
					if _, ok := r.(specError); ok {
						return
					}
					panic(r)
				}
			}()
			env := x.specEnv(st, fr, nil)
			if snap := fr.loopSnap[ord]; snap != nil {
				env.lheaps, env.lepoch, env.lnow, env.llocals = snap.heaps, snap.epoch, snap.now, snap.locals
			}
			t := x.evalBool(st, cl.SX, env)
			x.assertHit[l+"/"+cl.Name] = true
			x.emit(st, "assert", fmt.Sprintf("%s/assert:%s@exit-of-loop%d", x.funcKeyOf(x.fn), cl.Name, ord), cl, t)
			x.assume(st, t)
		}()
	}
}

// feasible asks the solver whether the path condition is satisfiable (used to prune paths excluded by a focus).
func (x *Exec) feasible(st *State) bool {
	f, err := os.CreateTemp(scratchBase(), "feas*.smt2")
	if err != nil {
		return true
	}
	defer os.Remove(f.Name())
	f.WriteString(x.header() + strings.Join(st.lines, "\n") + "\n(check-sat)\n")
	f.Close()
	r, _, _ := runSolver(solvers[1], f.Name(), 3)
	x.pruned++
	return r != "unsat"
}

// applyFocus applies focus clauses and lazily evaluable assumptions as soon as the values they mention exist.
func (x *Exec) applyFocus(st *State) {
	if x.fc == nil || len(st.stack) != 1 || (len(x.fc.Focus) == 0 && len(x.fc.Assume) == 0) {
		return
	}
	all := append(append([]Clause(nil), x.fc.Focus...), x.fc.Assume...)
	for i, c := range all {
		if st.focused[i] {
			continue
		}
		func() {
			defer func() {
				if r := recover(); r != nil {
					if _, ok := r.(specError); ok {
						return
					}
					panic(r)
				}
			}()
			env := x.specEnv(st, st.top(), nil)
			t := x.eval(c.SX, env).S
			x.assume(st, t)
			st.focused[i] = true
			if i >= len(x.fc.Focus) {
				x.assum[fmt.Sprintf("%s: assumed %s: %s", x.funcKeyOf(x.fn), c.Name, c.SX.String())] = true
			}
		}()
	}
}

// safety emits an obligation (nopanic functions) or an assumption for an implicit run-time check.
func (x *Exec) safety(st *State, what string, cond string, pos token.Pos) {
	if x.fc != nil && (x.fc.NoPanic || x.fc.NoPanicKinds[what]) {
		x.emit(st, "nopanic", x.funcKeyOf(x.fn)+"/nopanic:"+what, Clause{Src: x.L.pos(pos)}, cond)
	}
	x.assume(st, cond)
}

func (x *Exec) note(st *State, s string) {
	x.dropped[s]++
}

// instr executes a non-control instruction; returns false if the path ends.
func (x *Exec) instr(st *State, in ssa.Instruction) bool {
	switch i := in.(type) {
	case *ssa.DebugRef:
		if name := debugName(i); name != "" {
			v := x.get(st, i.X)
			if i.IsAddr {
				v.Loc = x.locOf(v)
				v.Rng = &Val{S: "addr"}
			}
			st.top().locals[name] = v
			x.applyFocus(st)
		}
	case *ssa.Alloc:
		t := i.Type().(*types.Pointer).Elem()
		r := x.freshRef(st)
		x.storeLoc(st, &Loc{Ref: r, BT: t}, x.so.zero(t))
		st.top().vals[i] = Val{S: r, T: i.Type()}
	case *ssa.Store:
		addr := x.get(st, i.Addr)
		v := x.get(st, i.Val)
		l := x.locOf(addr)
		if addr.Loc == nil {
			x.safety(st, "nil-store", fmt.Sprintf("(not (= %s 0))", addr.S), i.Pos())
		}
		x.storeLoc(st, l, x.coerce(v, l.typeAt()))
	case *ssa.FieldAddr:
		base := x.get(st, i.X)
		l := x.locOf(base)
		if base.Loc == nil {
			x.safety(st, "nil-deref", fmt.Sprintf("(not (= %s 0))", base.S), i.Pos())
		}
		ct := l.typeAt()
		nl := &Loc{Elem: l.Elem, Ref: l.Ref, Idx: l.Idx, BT: l.BT, Sl: l.Sl, SlIx: l.SlIx, Path: append(append([]PathElem(nil), l.Path...), PathElem{Field: i.Field, T: ct})}
		st.top().vals[i] = Val{Loc: nl, T: i.Type()}
	case *ssa.IndexAddr:
		base := x.get(st, i.X)
		idx := x.get(st, i.Index)
		switch u := types.Unalias(i.X.Type()).Underlying().(type) {
		case *types.Slice:
			x.safety(st, "index-range", fmt.Sprintf("(and (<= 0 %s) (< %s (s.len %s)))", idx.S, idx.S, base.S), i.Pos())
			ix := x.def(st, "Int", fmt.Sprintf("(+ (s.off %s) %s)", base.S, idx.S))
			arr := x.def(st, "Int", fmt.Sprintf("(s.arr %s)", base.S))
			st.top().vals[i] = Val{Loc: &Loc{Elem: true, Ref: arr, Idx: ix, BT: u.Elem(), Sl: base.S, SlIx: idx.S}, T: i.Type()}
		case *types.Pointer:
			arr, _ := isArray(u.Elem())
			x.safety(st, "index-range", fmt.Sprintf("(and (<= 0 %s) (< %s %d))", idx.S, idx.S, arr.Len()), i.Pos())
			if base.Loc == nil {
				x.safety(st, "nil-deref", fmt.Sprintf("(not (= %s 0))", base.S), i.Pos())
				st.top().vals[i] = Val{Loc: &Loc{Elem: true, Ref: base.S, Idx: idx.S, BT: arr.Elem()}, T: i.Type()}
			} else {
				l := base.Loc
				nl := &Loc{Elem: l.Elem, Ref: l.Ref, Idx: l.Idx, BT: l.BT, Sl: l.Sl, SlIx: l.SlIx, Path: append(append([]PathElem(nil), l.Path...), PathElem{IsIdx: true, Idx: idx.S, T: u.Elem()})}
				st.top().vals[i] = Val{Loc: nl, T: i.Type()}
			}
		}
	case *ssa.UnOp:
		x.unop(st, i)
	case *ssa.BinOp:
		x.binop(st, i)
	case *ssa.Field:
		v := x.get(st, i.X)
		sT, name, _ := structOf(i.X.Type())
		x.so.sortOf(i.X.Type())
		r := Val{S: fmt.Sprintf("(%s %s)", x.so.selName(name, sT.Field(i.Field).Name(), i.Field), v.S), T: i.Type()}
		x.bind(st, i, r)
		x.bornFact(st, st.top().vals[i])
	case *ssa.Index:
		v := x.get(st, i.X)
		idx := x.get(st, i.Index)
		if _, ok := isArray(i.X.Type()); ok {
			x.bind(st, i, Val{S: fmt.Sprintf("(select %s %s)", v.S, idx.S), T: i.Type()})
		} else {
			st.top().vals[i] = x.havocVal(st, i.Type(), "index")
		}
	case *ssa.Extract:
		t := x.get(st, i.Tuple)
		if i.Index < len(t.Tup) {
			st.top().vals[i] = t.Tup[i.Index]
		} else {
			st.top().vals[i] = x.havocVal(st, i.Type(), "extract")
		}
	case *ssa.Phi:
		// handled in enterBlock
	case *ssa.ChangeType:
		v := x.get(st, i.X)
		st.top().vals[i] = x.retype(v, i.Type())
	case *ssa.Convert:
		v := x.get(st, i.X)
		if x.so.sortOf(i.X.Type()) == x.so.sortOf(i.Type()) && x.so.sortOf(i.Type()) == "Int" && !isFloat(i.X.Type()) && !isFloat(i.Type()) {
			v.T = i.Type()
			st.top().vals[i] = v
		} else if x.so.sortOf(i.X.Type()) == "Str" && x.so.sortOf(i.Type()) == "Str" {
			v.T = i.Type()
			st.top().vals[i] = v
		} else {
			st.top().vals[i] = x.havocVal(st, i.Type(), "convert")
		}
	case *ssa.ChangeInterface:
		v := x.get(st, i.X)
		v.T = i.Type()
		st.top().vals[i] = v
	case *ssa.MakeInterface:
		v := x.get(st, i.X)
		tag := x.so.tagOf(i.X.Type())
		b, fact := x.so.box(i.X.Type(), x.coerce(v, i.X.Type()))
		if fact != "" {
			x.assume(st, fact)
		}
		x.bind(st, i, Val{S: fmt.Sprintf("(mk_iface %d %s)", tag, b), T: i.Type()})
	case *ssa.TypeAssert:
		x.typeAssert(st, i)
	case *ssa.MakeClosure:
		fn := i.Fn.(*ssa.Function)
		var clo []Val
		for _, b := range i.Bindings {
			clo = append(clo, x.get(st, b))
		}
		r := x.freshRef(st)
		st.top().vals[i] = Val{S: r, T: i.Type(), Fn: fn, Clo: clo}
	case *ssa.MakeMap:
		m := types.Unalias(i.Type()).Underlying().(*types.Map)
		r := x.freshRef(st)
		x.mapInit(st, m, r)
		st.top().vals[i] = Val{S: r, T: i.Type()}
	case *ssa.MakeChan:
		st.top().vals[i] = Val{S: x.freshRef(st), T: i.Type()}
	case *ssa.MakeSlice:
		sl := types.Unalias(i.Type()).Underlying().(*types.Slice)
		ln, cp := x.get(st, i.Len), x.get(st, i.Cap)
		x.safety(st, "makeslice", fmt.Sprintf("(and (<= 0 %s) (<= %s %s))", ln.S, ln.S, cp.S), i.Pos())
		r := x.freshRef(st)
		name, sort := eName(sl.Elem()), x.eSort(sl.Elem())
		h := x.heapSym(st, name, sort)
		x.setHeap(st, name, sort, fmt.Sprintf("(store %s %s ((as const (Array Int %s)) %s))", h, r, x.so.sortOf(sl.Elem()), x.so.zero(sl.Elem())))
		x.rowFrame(st, sl.Elem(), h, r)
		x.bind(st, i, Val{S: fmt.Sprintf("(mk_slice %s 0 %s %s)", r, ln.S, cp.S), T: i.Type()})
	case *ssa.Slice:
		x.slice(st, i)
	case *ssa.Lookup:
		x.lookup(st, i)
	case *ssa.MapUpdate:
		m := types.Unalias(i.Map.Type()).Underlying().(*types.Map)
		mv := x.get(st, i.Map)
		k := x.coerce(x.get(st, i.Key), m.Key())
		v := x.coerce(x.get(st, i.Value), m.Elem())
		x.safety(st, "nil-map-write", fmt.Sprintf("(not (= %s 0))", mv.S), i.Pos())
		x.mapStore(st, m, mv.S, k, v)
	case *ssa.Range:
		v := x.get(st, i.X)
		st.top().vals[i] = Val{S: "0", T: i.Type(), Rng: &v}
	case *ssa.Next:
		x.next(st, i)
	case *ssa.Call:
		ok := x.call(st, i)
		x.applyFocus(st)
		return ok
	case *ssa.Defer:
		c := i.Common()
		var args []Val
		for _, a := range c.Args {
			args = append(args, x.get(st, a))
		}
		d := Deferred{C: c, Args: args, Pos: i.Pos()}
		if _, isB := c.Value.(*ssa.Builtin); !isB {
			d.Fn = x.get(st, c.Value)
		}
		fr := st.top()
		fr.deferred = append(fr.deferred, d)
	case *ssa.RunDefers:
		fr := st.top()
		if n := len(fr.deferred); n > 0 {
			d := fr.deferred[n-1]
			fr.deferred = fr.deferred[:n-1]
			fr.pc-- // run this instruction again until no deferred call is left
			if _, isB := d.C.Value.(*ssa.Builtin); isB {
				x.note(st, "deferred builtin ignored")
				return true
			}
			return x.callCommon(st, d.C, nil, d.Pos, d.Args, d.Fn)
		}
	case *ssa.Go:
		x.note(st, "go statement abstracted: "+x.L.pos(i.Pos()))
		st.calls["effect:go"]++
		x.havocAll(st)
	case *ssa.Send:
		x.note(st, "channel send ignored")
		st.calls["effect:send"]++
	case *ssa.Select:
		st.top().vals[i] = x.havocVal(st, i.Type(), "select")
	case *ssa.SliceToArrayPointer, *ssa.MultiConvert:
		st.top().vals[in.(ssa.Value)] = x.havocVal(st, in.(ssa.Value).Type(), "unsupported")
	default:
		if v, ok := in.(ssa.Value); ok {
			st.top().vals[v] = x.havocVal(st, v.Type(), "unsupported")
		}
		x.note(st, fmt.Sprintf("unsupported instruction %T", in))
	}
	return true
}

func debugName(d *ssa.DebugRef) string {
	if o := d.Object(); o != nil {
		return o.Name()
	}
	return ""
}

func isFloat(t types.Type) bool {
	b, ok := types.Unalias(t).Underlying().(*types.Basic)
	return ok && b.Info()&(types.IsFloat|types.IsComplex) != 0
}

func (l *Loc) typeAt() types.Type {
	t := l.BT
	for _, pe := range l.Path {
		if pe.IsIdx {
			a, _ := isArray(pe.T)
			t = a.Elem()
		} else {
			st, _, _ := structOf(pe.T)
			t = st.Field(pe.Field).Type()
		}
	}
	return t
}

// coerce adapts a value to a target type where sorts differ only by struct naming.
func (x *Exec) coerce(v Val, t types.Type) string {
	if v.T == nil || t == nil {
		return v.S
	}
	s1, s2 := x.so.sortOf(v.T), x.so.sortOf(t)
	if s1 == s2 {
		return v.S
	}
	st1, n1, ok1 := structOf(v.T)
	st2, n2, ok2 := structOf(t)
	if ok1 && ok2 && st1.NumFields() == st2.NumFields() {
		var parts []string
		for i := 0; i < st1.NumFields(); i++ {
			parts = append(parts, fmt.Sprintf("(%s %s)", x.so.selName(n1, st1.Field(i).Name(), i), v.S))
		}
		if len(parts) == 0 {
			return q("mk:" + n2)
		}
		return "(" + q("mk:"+n2) + " " + strings.Join(parts, " ") + ")"
	}
	return v.S
}

func (x *Exec) retype(v Val, t types.Type) Val {
	if v.Loc != nil || v.Tup != nil {
		v.T = t
		return v
	}
	s := x.coerce(v, t)
	return Val{S: s, T: t, Fn: v.Fn, Clo: v.Clo}
}

func (x *Exec) unop(st *State, i *ssa.UnOp) {
	v := x.get(st, i.X)
	switch i.Op {
	case token.MUL:
		l := x.locOf(v)
		if v.Loc == nil {
			x.safety(st, "nil-deref", fmt.Sprintf("(not (= %s 0))", v.S), i.Pos())
		}
		x.bind(st, i, Val{S: x.loadLoc(st, l), T: i.Type()})
		x.bornFact(st, st.top().vals[i])
	case token.NOT:
		x.bind(st, i, Val{S: "(not " + v.S + ")", T: i.Type()})
	case token.SUB:
		x.bind(st, i, Val{S: "(- " + v.S + ")", T: i.Type()})
	case token.ARROW:
		r := x.havocVal(st, i.Type(), "recv")
		st.top().vals[i] = r
	default:
		st.top().vals[i] = x.havocVal(st, i.Type(), "unop")
	}
}

func (x *Exec) binop(st *State, i *ssa.BinOp) {
	a, b := x.get(st, i.X), x.get(st, i.Y)
	sa := x.so.sortOf(i.X.Type())
	var r string
	as, bs := a.S, b.S
	if a.Loc != nil || b.Loc != nil {
		st.top().vals[i] = x.havocVal(st, i.Type(), "ptr-compare")
		return
	}
	// comparing values of differently named but identical struct sorts
	if sa != x.so.sortOf(i.Y.Type()) {
		bs = x.coerce(b, i.X.Type())
	}
	switch i.Op {
	case token.EQL:
		r = fmt.Sprintf("(= %s %s)", as, bs)
	case token.NEQ:
		r = fmt.Sprintf("(not (= %s %s))", as, bs)
	case token.LSS, token.GTR, token.LEQ, token.GEQ:
		op := map[token.Token]string{token.LSS: "<", token.GTR: ">", token.LEQ: "<=", token.GEQ: ">="}[i.Op]
		if sa == "Int" && !isFloat(i.X.Type()) {
			r = fmt.Sprintf("(%s %s %s)", op, as, bs)
		} else if sa == "Str" {
			switch i.Op {
			case token.LSS:
				r = fmt.Sprintf("(strlt %s %s)", as, bs)
			case token.GTR:
				r = fmt.Sprintf("(strlt %s %s)", bs, as)
			case token.LEQ:
				r = fmt.Sprintf("(not (strlt %s %s))", bs, as)
			case token.GEQ:
				r = fmt.Sprintf("(not (strlt %s %s))", as, bs)
			}
		}
	case token.ADD:
		if sa == "Str" {
			r = fmt.Sprintf("(strcat %s %s)", as, bs)
		} else if sa == "Int" && !isFloat(i.X.Type()) {
			r = fmt.Sprintf("(+ %s %s)", as, bs)
		}
	case token.SUB:
		if sa == "Int" && !isFloat(i.X.Type()) {
			r = fmt.Sprintf("(- %s %s)", as, bs)
		}
	case token.MUL:
		if sa == "Int" && !isFloat(i.X.Type()) {
			r = fmt.Sprintf("(* %s %s)", as, bs)
		}
	case token.QUO:
		if sa == "Int" && !isFloat(i.X.Type()) {
			x.safety(st, "div-zero", fmt.Sprintf("(not (= %s 0))", bs), i.Pos())
			// Go truncates toward zero
			r = fmt.Sprintf("(ite (>= %s 0) (div %s %s) (- (div (- %s) %s)))", as, as, bs, as, bs)
		}
	case token.REM:
		if sa == "Int" && !isFloat(i.X.Type()) {
			x.safety(st, "div-zero", fmt.Sprintf("(not (= %s 0))", bs), i.Pos())
			r = fmt.Sprintf("(ite (>= %s 0) (mod %s (abs %s)) (- (mod (- %s) (abs %s))))", as, as, bs, as, bs)
		}
	case token.AND:
		if sa == "Bool" {
			r = fmt.Sprintf("(and %s %s)", as, bs)
		} else {
			r = fmt.Sprintf("(int.and %s %s)", as, bs)
		}
	case token.OR:
		if sa == "Bool" {
			r = fmt.Sprintf("(or %s %s)", as, bs)
		} else {
			r = fmt.Sprintf("(int.or %s %s)", as, bs)
		}
	case token.XOR:
		if sa == "Bool" {
			r = fmt.Sprintf("(xor %s %s)", as, bs)
		} else {
			r = fmt.Sprintf("(int.xor %s %s)", as, bs)
		}
	case token.SHL:
		r = fmt.Sprintf("(int.shl %s %s)", as, bs)
	case token.SHR:
		r = fmt.Sprintf("(int.shr %s %s)", as, bs)
	case token.AND_NOT:
		r = fmt.Sprintf("(int.andnot %s %s)", as, bs)
	}
	if r == "" {
		st.top().vals[i] = x.havocVal(st, i.Type(), "binop")
		return
	}
	x.bind(st, i, Val{S: r, T: i.Type()})
}

func (x *Exec) ifacePred(t types.Type) string {
	name := typeStr(t)
	p := q("impl:" + name)
	x.so.decl(p, fmt.Sprintf("(declare-fun %s (Int) Bool)", p))
	x.ifaceP[name] = t
	return p
}

func (x *Exec) typeAssert(st *State, i *ssa.TypeAssert) {
	v := x.get(st, i.X)
	var ok, val string
	if types.IsInterface(i.AssertedType) {
		p := x.ifacePred(i.AssertedType)
		ok = fmt.Sprintf("(%s (i.tag %s))", p, v.S)
		val = v.S
	} else {
		tag := x.so.tagOf(i.AssertedType)
		ok = fmt.Sprintf("(= (i.tag %s) %d)", v.S, tag)
		val = x.so.unbox(i.AssertedType, fmt.Sprintf("(i.val %s)", v.S))
	}
	if i.CommaOk {
		okS := x.def(st, "Bool", ok)
		z := x.so.zero(i.AssertedType)
		vs := x.def(st, x.so.sortOf(i.AssertedType), fmt.Sprintf("(ite %s %s %s)", okS, val, z))
		vv := Val{S: vs, T: i.AssertedType}
		x.bornFact(st, vv)
		st.top().vals[i] = Val{Tup: []Val{vv, {S: okS, T: types.Typ[types.Bool]}}, T: i.Type()}
		return
	}
	x.safety(st, "type-assert", ok, i.Pos())
	x.bind(st, i, Val{S: val, T: i.AssertedType})
	x.bornFact(st, st.top().vals[i])
}

func (x *Exec) mapHeaps(st *State, m *types.Map) (string, string, string) {
	ks, vs := x.so.sortOf(m.Key()), x.so.sortOf(m.Elem())
	md := x.heapSym(st, mdName(m), fmt.Sprintf("(Array Int (Array %s Bool))", ks))
	mv := x.heapSym(st, mvName(m), fmt.Sprintf("(Array Int (Array %s %s))", ks, vs))
	ml := x.heapSym(st, mlName(m), "(Array Int Int)")
	return md, mv, ml
}

func (x *Exec) mapInit(st *State, m *types.Map, r string) {
	ks, vs := x.so.sortOf(m.Key()), x.so.sortOf(m.Elem())
	md, mv, ml := x.mapHeaps(st, m)
	x.setHeap(st, mdName(m), fmt.Sprintf("(Array Int (Array %s Bool))", ks), fmt.Sprintf("(store %s %s ((as const (Array %s Bool)) false))", md, r, ks))
	x.setHeap(st, mvName(m), fmt.Sprintf("(Array Int (Array %s %s))", ks, vs), fmt.Sprintf("(store %s %s ((as const (Array %s %s)) %s))", mv, r, ks, vs, x.so.zero(m.Elem())))
	x.setHeap(st, mlName(m), "(Array Int Int)", fmt.Sprintf("(store %s %s 0)", ml, r))
}

func (x *Exec) mapStore(st *State, m *types.Map, r, k, v string) {
	ks, vs := x.so.sortOf(m.Key()), x.so.sortOf(m.Elem())
	md, mv, ml := x.mapHeaps(st, m)
	x.setHeap(st, mlName(m), "(Array Int Int)", fmt.Sprintf("(store %s %s (+ (select %s %s) (ite (select (select %s %s) %s) 0 1)))", ml, r, ml, r, md, r, k))
	x.setHeap(st, mdName(m), fmt.Sprintf("(Array Int (Array %s Bool))", ks), fmt.Sprintf("(store %s %s (store (select %s %s) %s true))", md, r, md, r, k))
	x.setHeap(st, mvName(m), fmt.Sprintf("(Array Int (Array %s %s))", ks, vs), fmt.Sprintf("(store %s %s (store (select %s %s) %s %s))", mv, r, mv, r, k, v))
}

func (x *Exec) mapDelete(st *State, m *types.Map, r, k string) {
	ks := x.so.sortOf(m.Key())
	md, _, ml := x.mapHeaps(st, m)
	x.setHeap(st, mlName(m), "(Array Int Int)", fmt.Sprintf("(store %s %s (- (select %s %s) (ite (select (select %s %s) %s) 1 0)))", ml, r, ml, r, md, r, k))
	x.setHeap(st, mdName(m), fmt.Sprintf("(Array Int (Array %s Bool))", ks), fmt.Sprintf("(store %s %s (store (select %s %s) %s false))", md, r, md, r, k))
}

func (x *Exec) lookup(st *State, i *ssa.Lookup) {
	mv := x.get(st, i.X)
	k := x.get(st, i.Index)
	m, ok := types.Unalias(i.X.Type()).Underlying().(*types.Map)
	if !ok {
		st.top().vals[i] = x.havocVal(st, i.Type(), "string-index")
		return
	}
	md, mvh, ml := x.mapHeaps(st, m)
	_ = ml
	ks := x.coerce(k, m.Key())
	in := x.def(st, "Bool", fmt.Sprintf("(and (not (= %s 0)) (select (select %s %s) %s))", mv.S, md, mv.S, ks))
	val := x.def(st, x.so.sortOf(m.Elem()), fmt.Sprintf("(ite %s (select (select %s %s) %s) %s)", in, mvh, mv.S, ks, x.so.zero(m.Elem())))
	vv := Val{S: val, T: m.Elem()}
	x.bornFact(st, vv)
	if i.CommaOk {
		st.top().vals[i] = Val{Tup: []Val{vv, {S: in, T: types.Typ[types.Bool]}}, T: i.Type()}
	} else {
		st.top().vals[i] = vv
	}
}

func (x *Exec) next(st *State, i *ssa.Next) {
	it := x.get(st, i.Iter)
	tup := i.Type().(*types.Tuple)
	ok := x.declare(st, "ok", "Bool")
	okV := Val{S: ok, T: types.Typ[types.Bool]}
	if it.Rng != nil && it.Rng.T != nil {
		if m, isMap := types.Unalias(it.Rng.T).Underlying().(*types.Map); isMap {
			md, mv, _ := x.mapHeaps(st, m)
			k := x.declare(st, "k", x.so.sortOf(m.Key()))
			x.assume(st, fmt.Sprintf("(=> %s (and (not (= %s 0)) (select (select %s %s) %s)))", ok, it.Rng.S, md, it.Rng.S, k))
			kv := Val{S: k, T: m.Key()}
			x.bornFact(st, kv)
			v := Val{S: x.def(st, x.so.sortOf(m.Elem()), fmt.Sprintf("(select (select %s %s) %s)", mv, it.Rng.S, k)), T: m.Elem()}
			x.bornFact(st, v)
			// tuple element types may be invalid (blank) types
			st.top().vals[i] = Val{Tup: []Val{okV, kv, v}, T: tup}
			return
		}
	}
	st.top().vals[i] = Val{Tup: []Val{okV, x.havocVal(st, safeT(tup.At(1).Type()), "next"), x.havocVal(st, safeT(tup.At(2).Type()), "next")}, T: tup}
}

func safeT(t types.Type) types.Type {
	if b, ok := t.(*types.Basic); ok && b.Kind() == types.Invalid {
		return types.Typ[types.Int]
	}
	return t
}

func (x *Exec) slice(st *State, i *ssa.Slice) {
	v := x.get(st, i.X)
	lo := "0"
	if i.Low != nil {
		lo = x.get(st, i.Low).S
	}
	switch u := types.Unalias(i.X.Type()).Underlying().(type) {
	case *types.Slice:
		hi := fmt.Sprintf("(s.len %s)", v.S)
		if i.High != nil {
			hi = x.get(st, i.High).S
		}
		mx := fmt.Sprintf("(s.cap %s)", v.S)
		if i.Max != nil {
			mx = x.get(st, i.Max).S
		}
		x.safety(st, "slice-range", fmt.Sprintf("(and (<= 0 %s) (<= %s %s) (<= %s %s) (<= %s (s.cap %s)))", lo, lo, hi, hi, mx, mx, v.S), i.Pos())
		x.bind(st, i, Val{S: fmt.Sprintf("(mk_slice (s.arr %s) (+ (s.off %s) %s) (- %s %s) (- %s %s))", v.S, v.S, lo, hi, lo, mx, lo), T: i.Type()})
	case *types.Pointer:
		arr, ok := isArray(u.Elem())
		if !ok || v.Loc != nil {
			st.top().vals[i] = x.havocVal(st, i.Type(), "slice-of-interior-array")
			x.note(st, "slice of interior array abstracted")
			return
		}
		hi := fmt.Sprintf("%d", arr.Len())
		if i.High != nil {
			hi = x.get(st, i.High).S
		}
		mx := fmt.Sprintf("%d", arr.Len())
		if i.Max != nil {
			mx = x.get(st, i.Max).S
		}
		x.safety(st, "slice-range", fmt.Sprintf("(and (<= 0 %s) (<= %s %s) (<= %s %s) (<= %s %d))", lo, lo, hi, hi, mx, mx, arr.Len()), i.Pos())
		x.bind(st, i, Val{S: fmt.Sprintf("(mk_slice %s %s (- %s %s) (- %s %s))", v.S, lo, hi, lo, mx, lo), T: i.Type()})
	default:
		st.top().vals[i] = x.havocVal(st, i.Type(), "string-slice")
	}
}
