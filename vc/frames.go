package main

import (
	"encoding/json"
	"os"
	"path/filepath"
	"fmt"
	"go/types"
	"sort"
	"strings"

	"golang.org/x/tools/go/ssa"
)

// ---------------------------------------------------------------------------------------------
// C17 / C16: frame conditions by ownership.
//
// Every write in NilAway whose target may be a driver-shared structure generates the obligation
// owned(target).  Ownership is established by allocation, transferred by the contracts
//     //@ ghost owns <param>          (precondition: the caller passes an owned object)
//     //@ ghost returns-owned [<i>]   (postcondition: result i is owned)
// and carried through the deep-ownership invariant of control-flow graphs: an owned cfg.CFG / cfg.Block
// has owned Blocks / Nodes / Succs arrays, and the elements of an owned []*cfg.Block are owned blocks.
// The invariant is itself an obligation at every store that could break it.  The obligations are discharged
// function by function (callers use the callee's ownership contract, never its body) by a flow-insensitive
// ownership inference over the SSA def-use graph.
// ---------------------------------------------------------------------------------------------

var sharedPkgs = map[string]bool{
	"go/ast": true, "go/types": true, "go/token": true,
	"golang.org/x/tools/go/cfg": true, "golang.org/x/tools/go/ssa": true,
}

// obsPkgs: driver structures outside the property's list (syntax trees, type information, CFGs, SSA); writes to
// them are reported in the evidence as observations, not as violations.
var obsPkgs = map[string]bool{"golang.org/x/tools/go/analysis": true}

func obsNamed(t types.Type) bool {
	n := namedOf(t)
	return n != nil && n.Obj().Pkg() != nil && obsPkgs[n.Obj().Pkg().Path()] && n.Obj().Name() == "Pass"
}

func namedOf(t types.Type) *types.Named {
	for {
		t = types.Unalias(t)
		if p, ok := t.(*types.Pointer); ok {
			t = p.Elem()
			continue
		}
		break
	}
	n, _ := t.(*types.Named)
	return n
}

// sharedNamed reports whether t (after stripping pointers) is a named type declared in a driver-shared package.
func sharedNamed(t types.Type) bool {
	n := namedOf(t)
	return n != nil && n.Obj().Pkg() != nil && sharedPkgs[n.Obj().Pkg().Path()]
}

// directShared: t itself (not a pointer to it) is a named type of a shared package.
func directShared(t types.Type) bool {
	n, ok := types.Unalias(t).(*types.Named)
	return ok && n.Obj().Pkg() != nil && sharedPkgs[n.Obj().Pkg().Path()]
}

func isNilawayNamed(t types.Type) bool {
	n := namedOf(t)
	return n != nil && n.Obj().Pkg() != nil && strings.HasPrefix(n.Obj().Pkg().Path(), modPath)
}

// mentionsNilaway: the type cannot belong to the driver because it mentions a NilAway-declared type.
func mentionsNilaway(t types.Type) bool {
	found := false
	var walk func(t types.Type, depth int)
	walk = func(t types.Type, depth int) {
		if found || depth > 6 {
			return
		}
		t = types.Unalias(t)
		switch u := t.(type) {
		case *types.Named:
			if u.Obj().Pkg() != nil && strings.HasPrefix(u.Obj().Pkg().Path(), modPath) {
				found = true
			}
		case *types.Pointer:
			walk(u.Elem(), depth+1)
		case *types.Slice:
			walk(u.Elem(), depth+1)
		case *types.Array:
			walk(u.Elem(), depth+1)
		case *types.Map:
			walk(u.Key(), depth+1)
			walk(u.Elem(), depth+1)
		}
	}
	walk(t, 0)
	return found
}

func isDeepType(t types.Type) bool {
	n := namedOf(t)
	if n == nil || n.Obj().Pkg() == nil || n.Obj().Pkg().Path() != "golang.org/x/tools/go/cfg" {
		return false
	}
	return n.Obj().Name() == "CFG" || n.Obj().Name() == "Block"
}

func isBlockPtr(t types.Type) bool {
	n := namedOf(t)
	return n != nil && n.Obj().Pkg() != nil && n.Obj().Pkg().Path() == "golang.org/x/tools/go/cfg" && n.Obj().Name() == "Block"
}

type Own int

const (
	OwnUnknown Own = iota
	OwnOwned       // allocated by NilAway and not shared with the driver
	OwnNilaway     // a container owned by NilAway (field of a NilAway struct, NilAway package variable)
	OwnShared      // reached through a driver-shared structure
)

func (o Own) String() string { return [...]string{"unknown", "owned", "nilaway-container", "shared"}[o] }

func join(a, b Own) Own {
	if a == b {
		return a
	}
	if a == OwnShared || b == OwnShared {
		return OwnShared
	}
	return OwnUnknown
}

// FrameSite is one obligation of the ownership discipline.
type FrameSite struct {
	Fn   *ssa.Function
	In   ssa.Instruction
	What string
	Desc string
	Own  Own
	Why  string
	OK   bool
	Obs  bool // observation only (outside the property's list of shared inputs)
}

type ownCtx struct {
	L      *Loaded
	db     *ContractDB
	fn     *ssa.Function
	memo   map[ssa.Value]Own
	why    map[ssa.Value]string
	active map[ssa.Value]bool
	cells  map[ssa.Value]bool // captured cells being resolved (shared across contexts)
	cellsStr map[string]bool
}

func newOwnCtx(L *Loaded, db *ContractDB, fn *ssa.Function) *ownCtx {
	return &ownCtx{L: L, db: db, fn: fn, memo: map[ssa.Value]Own{}, why: map[ssa.Value]string{}, active: map[ssa.Value]bool{}, cells: map[ssa.Value]bool{}}
}

func (c *ownCtx) child(fn *ssa.Function) *ownCtx {
	n := newOwnCtx(c.L, c.db, fn)
	n.cells = c.cells
	return n
}

func contractGhost(db *ContractDB, fn *ssa.Function, g string) bool {
	if fn == nil {
		return false
	}
	o := fn
	if fn.Origin() != nil {
		o = fn.Origin()
	}
	fc := db.Funcs[normKey(o.RelString(nil))]
	return fc != nil && fc.hasGhost(g)
}

func (c *ownCtx) own(v ssa.Value) Own {
	if o, ok := c.memo[v]; ok {
		return o
	}
	if c.active[v] {
		return OwnOwned // optimistic on cycles; the other edges decide
	}
	c.active[v] = true
	o, why := c.compute(v)
	delete(c.active, v)
	c.memo[v] = o
	c.why[v] = why
	return o
}

func (c *ownCtx) joinAll(vals []ssa.Value, what string) (Own, string) {
	var o Own = -1
	why := ""
	for _, e := range vals {
		eo := c.own(e)
		if o == -1 {
			o, why = eo, c.why[e]
		} else if j := join(o, eo); j != o {
			why = what + " of " + o.String() + " (" + why + ") and " + eo.String() + " (" + c.why[e] + ")"
			o = j
		}
	}
	if o == -1 {
		return OwnUnknown, what + " without sources"
	}
	return o, why
}

func (c *ownCtx) compute(v ssa.Value) (Own, string) {
	switch x := v.(type) {
	case *ssa.Alloc:
		return OwnOwned, "allocated here"
	case *ssa.MakeSlice, *ssa.MakeMap, *ssa.MakeChan, *ssa.MakeClosure:
		return OwnOwned, "made here"
	case *ssa.Const:
		return OwnOwned, "nil constant"
	case *ssa.Global:
		if x.Pkg != nil && strings.HasPrefix(x.Pkg.Pkg.Path(), modPath) {
			return OwnNilaway, "package-level variable of NilAway"
		}
		return OwnShared, "foreign global"
	case *ssa.Parameter:
		if contractGhost(c.db, c.fn, "owns "+x.Name()) {
			return OwnOwned, "contract: owns " + x.Name()
		}
		if x.Parent().Parent() != nil {
			// parameter of an anonymous function: closures are not API, so the parameter is whatever the enclosing
			// function (and its other closures) pass at the call sites that resolve to this closure
			if o, why, ok := c.closureParamOwn(x); ok {
				return o, why
			}
		}
		if mentionsNilaway(x.Type()) && !sharedNamed(x.Type()) {
			return OwnNilaway, "parameter whose type mentions a NilAway type"
		}
		if sharedNamed(x.Type()) || sharedNamed(elemTypeOf(x.Type())) {
			return OwnShared, "parameter " + x.Name() + " of driver-shared type without ownership contract"
		}
		return OwnUnknown, "parameter " + x.Name() + " without ownership contract"
	case *ssa.FreeVar:
		return c.freeVarOwn(x)
	case *ssa.Phi:
		return c.joinAll(x.Edges, "phi")
	case *ssa.Slice:
		return c.own(x.X), "slice of " + c.why[x.X]
	case *ssa.ChangeType:
		return c.own(x.X), c.why[x.X]
	case *ssa.Convert:
		return c.own(x.X), c.why[x.X]
	case *ssa.MakeInterface:
		return c.own(x.X), c.why[x.X]
	case *ssa.ChangeInterface:
		return c.own(x.X), c.why[x.X]
	case *ssa.TypeAssert:
		return c.own(x.X), c.why[x.X]
	case *ssa.Extract:
		switch t := x.Tuple.(type) {
		case *ssa.Call:
			return c.callOwn(t, x.Index)
		case *ssa.TypeAssert:
			if x.Index == 0 {
				return c.own(t.X), c.why[t.X]
			}
		case *ssa.Lookup:
			if x.Index == 0 {
				return c.elemOf(t.X, "map element")
			}
		case *ssa.Next:
			if r, ok := t.Iter.(*ssa.Range); ok {
				if x.Index == 2 {
					return c.elemOf(r.X, "map element")
				}
				if x.Index == 1 {
					return c.keyOf(r.X)
				}
			}
		}
		return OwnUnknown, "tuple element"
	case *ssa.Call:
		return c.callOwn(x, 0)
	case *ssa.FieldAddr:
		return c.own(x.X), c.why[x.X]
	case *ssa.IndexAddr:
		return c.own(x.X), c.why[x.X]
	case *ssa.Lookup:
		return c.elemOf(x.X, "map element")
	case *ssa.UnOp:
		if x.Op.String() != "*" {
			return OwnUnknown, "unop"
		}
		switch a := x.X.(type) {
		case *ssa.FieldAddr:
			return c.fieldLoad(a, x.Type())
		case *ssa.IndexAddr:
			return c.elemOf(a.X, "element")
		case *ssa.Alloc:
			return c.cellOwn(a, c)
		case *ssa.FreeVar:
			return c.freeVarCell(a)
		case *ssa.Global:
			if a.Pkg != nil && strings.HasPrefix(a.Pkg.Pkg.Path(), modPath) {
				return OwnNilaway, "NilAway package-level variable"
			}
			return OwnShared, "foreign package-level variable"
		}
		return OwnUnknown, "load through " + fmt.Sprintf("%T", x.X)
	}
	return OwnUnknown, fmt.Sprintf("%T", v)
}

func (c *ownCtx) fieldLoad(a *ssa.FieldAddr, resT types.Type) (Own, string) {
	base := c.own(a.X)
	bt := a.X.Type().Underlying().(*types.Pointer).Elem()
	st, _, _ := structOf(bt)
	fname := st.Field(a.Field).Name()
	if isDeepType(bt) {
		if base == OwnOwned {
			switch fname {
			case "Blocks", "Nodes", "Succs":
				return OwnOwned, "array " + fname + " of an owned graph/block (deep-ownership invariant)"
			}
		}
		if base == OwnOwned {
			return OwnUnknown, "field " + fname + " of an owned graph/block"
		}
		return OwnShared, "field " + fname + " of a driver-shared " + typeStr(bt) + " (" + c.why[a.X] + ")"
	}
	if sharedNamed(bt) {
		if base == OwnOwned {
			// a NilAway-allocated AST/type object: what it references is not owned just because the object is
			return OwnUnknown, "field " + fname + " of a NilAway-allocated " + typeStr(bt)
		}
		return OwnShared, "field " + fname + " of driver-shared " + typeStr(bt)
	}
	// field of a NilAway (or anonymous) struct
	if isContainer(resT) {
		// data-structure invariant: a container-typed field of a NilAway struct only ever holds containers allocated
		// by NilAway; the invariant is an obligation at every store into such a field (see fieldStoreObligations).
		return OwnOwned, "container field " + fname + " of NilAway struct " + typeStr(bt) + " (field invariant)"
	}
	if sharedNamed(resT) {
		return OwnShared, "driver-shared structure referenced from NilAway field " + fname
	}
	return OwnNilaway, "NilAway field " + fname
}

func isContainer(t types.Type) bool {
	switch types.Unalias(t).Underlying().(type) {
	case *types.Slice, *types.Map:
		return true
	}
	return false
}

func elemTypeOf(t types.Type) types.Type {
	switch u := types.Unalias(t).Underlying().(type) {
	case *types.Slice:
		return u.Elem()
	case *types.Array:
		return u.Elem()
	case *types.Map:
		return u.Elem()
	case *types.Pointer:
		if _, ok := u.Elem().Underlying().(*types.Array); ok {
			return elemTypeOf(u.Elem())
		}
	}
	return t
}

// elemOf: ownership of an element read out of a container value.
func (c *ownCtx) elemOf(cont ssa.Value, what string) (Own, string) {
	co := c.own(cont)
	et := elemTypeOf(cont.Type())
	if isBlockPtr(et) {
		if co == OwnOwned {
			if _, isMap := types.Unalias(cont.Type()).Underlying().(*types.Map); !isMap {
				return OwnOwned, "block of an owned block array (deep-ownership invariant)"
			}
		}
	}
	if _, isMap := types.Unalias(cont.Type()).Underlying().(*types.Map); isMap && (co == OwnOwned || co == OwnNilaway) {
		// a NilAway map: its elements are whatever is stored into maps of this type by the enclosing top-level
		// function and its closures
		if o, why, ok := c.mapStoredByType(cont.Type()); ok {
			return o, what + " of a NilAway map holding " + why
		}
	}
	if sharedNamed(et) {
		return OwnShared, what + " of driver-shared type read from a container"
	}
	if co == OwnOwned {
		return OwnUnknown, what + " of an owned container"
	}
	return co, what + " of " + c.why[cont]
}

func (c *ownCtx) keyOf(cont ssa.Value) (Own, string) {
	if m, ok := types.Unalias(cont.Type()).Underlying().(*types.Map); ok && sharedNamed(m.Key()) {
		return OwnShared, "map key of driver-shared type"
	}
	return OwnUnknown, "map key"
}

func (c *ownCtx) mapStoredByType(mt types.Type) (Own, string, bool) {
	key := "maptype:" + typeStr(mt)
	top := c.fn
	for top.Parent() != nil {
		top = top.Parent()
	}
	sentinel := ssa.Value(top)
	_ = sentinel
	if c.cellsStr == nil {
		c.cellsStr = map[string]bool{}
	}
	if c.cellsStr[key] {
		return OwnOwned, "(cyclic)", true
	}
	c.cellsStr[key] = true
	defer delete(c.cellsStr, key)
	var o Own = -1
	why := ""
	n := 0
	var visit func(f *ssa.Function)
	visit = func(f *ssa.Function) {
		fc := c.child(f)
		fc.cellsStr = c.cellsStr
		for _, b := range f.Blocks {
			for _, in := range b.Instrs {
				if mu, ok := in.(*ssa.MapUpdate); ok && types.Identical(mu.Map.Type(), mt) {
					n++
					vo := fc.own(mu.Value)
					if o == -1 {
						o, why = vo, fc.why[mu.Value]
					} else if j := join(o, vo); j != o {
						why = "values of " + o.String() + " and " + vo.String()
						o = j
					}
				}
			}
		}
		for _, af := range f.AnonFuncs {
			visit(af)
		}
	}
	visit(top)
	if n == 0 {
		return 0, "", false
	}
	return o, why, true
}

// mapStored joins everything stored into a map value by this function (only for maps made here).
func (c *ownCtx) mapStored(m ssa.Value) (Own, string, bool) {
	root := m
	if u, ok := root.(*ssa.UnOp); ok {
		if a, ok := u.X.(*ssa.Alloc); ok {
			// cell holding the map: all maps stored in the cell must be MakeMaps
			var mk ssa.Value
			for _, r := range *a.Referrers() {
				if s, ok := r.(*ssa.Store); ok && s.Addr == ssa.Value(a) {
					if _, isMk := s.Val.(*ssa.MakeMap); !isMk || mk != nil {
						return 0, "", false
					}
					mk = s.Val
				}
			}
			// updates go through loads of the cell
			var vals []ssa.Value
			for _, r := range *a.Referrers() {
				if ld, ok := r.(*ssa.UnOp); ok {
					for _, rr := range *ld.Referrers() {
						if mu, ok := rr.(*ssa.MapUpdate); ok && mu.Map == ssa.Value(ld) {
							vals = append(vals, mu.Value)
						}
					}
				}
			}
			if len(vals) == 0 {
				return 0, "", false
			}
			o, why := c.joinAll(vals, "map values")
			return o, why, true
		}
	}
	if _, ok := root.(*ssa.MakeMap); ok {
		var vals []ssa.Value
		for _, r := range *root.Referrers() {
			if mu, ok := r.(*ssa.MapUpdate); ok && mu.Map == root {
				vals = append(vals, mu.Value)
			}
		}
		if len(vals) == 0 {
			return 0, "", false
		}
		o, why := c.joinAll(vals, "map values")
		return o, why, true
	}
	return 0, "", false
}

// cellOwn: join of everything stored into a local variable cell (in the context that declares it).
func (c *ownCtx) cellOwn(cell ssa.Value, decl *ownCtx) (Own, string) {
	refs := cell.Referrers()
	if refs == nil {
		return OwnUnknown, "cell"
	}
	var vals []ssa.Value
	for _, r := range *refs {
		if s, ok := r.(*ssa.Store); ok && s.Addr == cell {
			vals = append(vals, s.Val)
		}
	}
	if len(vals) == 0 {
		return OwnOwned, "zero-valued local variable"
	}
	o, why := decl.joinAll(vals, "assignments")
	return o, "local variable holding " + why
}

// freeVarBinding finds the value bound to a free variable in the enclosing function.
func freeVarBinding(fv *ssa.FreeVar) (ssa.Value, *ssa.Function) {
	fn := fv.Parent()
	parent := fn.Parent()
	if parent == nil {
		return nil, nil
	}
	idx := -1
	for i, f := range fn.FreeVars {
		if f == fv {
			idx = i
		}
	}
	for _, b := range parent.Blocks {
		for _, in := range b.Instrs {
			if mc, ok := in.(*ssa.MakeClosure); ok && mc.Fn == ssa.Value(fn) && idx >= 0 && idx < len(mc.Bindings) {
				return mc.Bindings[idx], parent
			}
		}
	}
	return nil, nil
}

// freeVarOwn: ownership of the captured value itself (captured by value: e.g. parameters that are never reassigned
// are still captured through a cell in go/ssa, so this is the cell pointer).
func (c *ownCtx) freeVarOwn(fv *ssa.FreeVar) (Own, string) {
	return OwnNilaway, "captured variable cell"
}

// freeVarCell: contents of a captured variable.
func (c *ownCtx) freeVarCell(fv *ssa.FreeVar) (Own, string) {
	if contractGhost(c.db, c.fn, "owns "+fv.Name()) {
		return OwnOwned, "contract: owns " + fv.Name()
	}
	b, parent := freeVarBinding(fv)
	if b == nil {
		return OwnUnknown, "captured variable " + fv.Name()
	}
	pc := c.child(parent)
	if c.cells[b] {
		return OwnOwned, "captured variable (cyclic)"
	}
	c.cells[b] = true
	defer delete(c.cells, b)
	switch cell := b.(type) {
	case *ssa.Alloc:
		// stores into the cell may also happen in sibling closures; consider parent and all its closures
		var vals []ssa.Value
		var ctxs []*ownCtx
		var collect func(f *ssa.Function)
		collect = func(f *ssa.Function) {
			fc := c.child(f)
			for _, blk := range f.Blocks {
				for _, in := range blk.Instrs {
					if s, ok := in.(*ssa.Store); ok {
						if s.Addr == ssa.Value(cell) {
							vals = append(vals, s.Val)
							ctxs = append(ctxs, fc)
						} else if afv, ok := s.Addr.(*ssa.FreeVar); ok {
							if bb, _ := freeVarBinding(afv); bb == ssa.Value(cell) {
								vals = append(vals, s.Val)
								ctxs = append(ctxs, fc)
							}
						}
					}
				}
			}
			for _, af := range f.AnonFuncs {
				collect(af)
			}
		}
		collect(parent)
		if len(vals) == 0 {
			return OwnOwned, "captured zero-valued variable " + fv.Name()
		}
		var o Own = -1
		why := ""
		for i, v := range vals {
			vo := ctxs[i].own(v)
			if o == -1 {
				o, why = vo, ctxs[i].why[v]
			} else if j := join(o, vo); j != o {
				why = "assignments of " + o.String() + " and " + vo.String()
				o = j
			}
		}
		return o, "captured variable " + fv.Name() + " holding " + why
	case *ssa.FreeVar:
		return pc.freeVarCell(cell)
	}
	return OwnUnknown, "captured variable " + fv.Name()
}

// resolveCallee: static callee, or the closure stored in the local variable that is called.
func resolveCallee(cc *ssa.CallCommon) *ssa.Function {
	if f := cc.StaticCallee(); f != nil {
		return f
	}
	if cc.IsInvoke() {
		return nil
	}
	u, ok := cc.Value.(*ssa.UnOp)
	if !ok {
		return nil
	}
	var cell ssa.Value
	switch a := u.X.(type) {
	case *ssa.Alloc:
		cell = a
	case *ssa.FreeVar:
		b, _ := freeVarBinding(a)
		for {
			fv, ok := b.(*ssa.FreeVar)
			if !ok {
				break
			}
			b, _ = freeVarBinding(fv)
		}
		cell = b
	}
	al, ok := cell.(*ssa.Alloc)
	if !ok {
		return nil
	}
	var fn *ssa.Function
	n := 0
	for _, r := range *al.Referrers() {
		if s, ok := r.(*ssa.Store); ok && s.Addr == ssa.Value(al) {
			n++
			if mc, ok := s.Val.(*ssa.MakeClosure); ok {
				fn, _ = mc.Fn.(*ssa.Function)
			}
		}
	}
	if n == 1 {
		return fn
	}
	return nil
}

func (c *ownCtx) closureParamOwn(p *ssa.Parameter) (Own, string, bool) {
	fn := p.Parent()
	idx := -1
	for i, q := range fn.Params {
		if q == p {
			idx = i
		}
	}
	top := fn
	for top.Parent() != nil {
		top = top.Parent()
	}
	key := "closureparam:" + fn.RelString(nil) + "#" + p.Name()
	if c.cellsStr == nil {
		c.cellsStr = map[string]bool{}
	}
	if c.cellsStr[key] {
		return OwnOwned, "(cyclic)", true
	}
	c.cellsStr[key] = true
	defer delete(c.cellsStr, key)
	var o Own = -1
	why := ""
	n := 0
	var visit func(f *ssa.Function)
	visit = func(f *ssa.Function) {
		fc := c.child(f)
		fc.cellsStr = c.cellsStr
		for _, b := range f.Blocks {
			for _, in := range b.Instrs {
				call, ok := in.(*ssa.Call)
				if !ok || resolveCallee(call.Common()) != fn || idx >= len(call.Common().Args) {
					continue
				}
				n++
				a := call.Common().Args[idx]
				ao := fc.own(a)
				if o == -1 {
					o, why = ao, fc.why[a]
				} else if j := join(o, ao); j != o {
					why = "arguments of " + o.String() + " and " + ao.String()
					o = j
				}
			}
		}
		for _, af := range f.AnonFuncs {
			visit(af)
		}
	}
	visit(top)
	if n == 0 || closureEscapes(fn) {
		return 0, "", false
	}
	return o, fmt.Sprintf("closure parameter %s: all %d call sites pass %s", p.Name(), n, why), true
}

func calleeKey(callee *ssa.Function) string {
	if callee.Origin() != nil {
		return normKey(callee.Origin().RelString(nil))
	}
	return normKey(callee.RelString(nil))
}

func (c *ownCtx) callOwn(call *ssa.Call, idx int) (Own, string) {
	cc := call.Common()
	if b, ok := cc.Value.(*ssa.Builtin); ok {
		if b.Name() == "append" {
			o := c.own(cc.Args[0])
			return o, "append to " + c.why[cc.Args[0]]
		}
		return OwnUnknown, "builtin " + b.Name()
	}
	callee := cc.StaticCallee()
	if callee == nil {
		return OwnUnknown, "dynamic call"
	}
	key := calleeKey(callee)
	if contractGhost(c.db, callee, "returns-owned") || contractGhost(c.db, callee, fmt.Sprintf("returns-owned %d", idx)) {
		return OwnOwned, "contract of " + shortKey(key) + ": returns-owned"
	}
	switch key {
	case "slices.Clone", "slices.Concat", "maps.Clone", "slices.Collect", "slices.Sorted":
		if isBlockPtr(elemTypeOf(call.Type())) && len(cc.Args) > 0 {
			// a fresh array of blocks is an owned block array only if the blocks themselves are owned
			o := c.own(cc.Args[0])
			return o, key + " of a block array (" + c.why[cc.Args[0]] + "): the blocks are not copied"
		}
		return OwnOwned, key + " returns a fresh container"
	}
	if sharedNamed(call.Type()) || sharedNamed(elemTypeOf(call.Type())) {
		return OwnShared, "driver-shared structure returned by " + shortKey(key)
	}
	return OwnUnknown, "result of " + shortKey(key)
}

var mutatorFuncs = map[string]int{ // callee key -> index of the mutated argument
	"slices.SortFunc": 0, "slices.Sort": 0, "slices.SortStableFunc": 0, "slices.Reverse": 0, "slices.DeleteFunc": 0,
	"slices.Delete": 0, "slices.Insert": 0, "slices.Compact": 0, "slices.CompactFunc": 0, "slices.Replace": 0,
	"sort.Slice": 0, "sort.SliceStable": 0, "sort.Sort": 0, "sort.Stable": 0, "sort.Strings": 0, "sort.Ints": 0,
	"maps.Copy": 0, "maps.DeleteFunc": 0,
	"(*go/token.File).AddLine": 0, "(*go/token.File).SetLines": 0, "(*go/token.File).SetLinesForContent": 0,
	"(*go/token.File).AddLineInfo": 0, "(*go/token.File).AddLineColumnInfo": 0, "(*go/token.File).MergeLine": 0,
	"(*go/token.FileSet).AddFile": 0, "(*go/token.FileSet).RemoveFile": 0,
	"(*go/types.Scope).Insert": 0, "go/ast.SortImports": 1, "(*go/types.Package).SetImports": 0, "(*go/types.Package).MarkComplete": 0,
	"(*go/types.Package).SetName": 0, "(*go/types.Named).AddMethod": 0, "(*go/types.Named).SetUnderlying": 0,
	"(*go/types.TypeParam).SetConstraint": 0,
}

func framePkgInScope(fn *ssa.Function) bool {
	p := fnPkg(fn)
	if p == nil {
		return false
	}
	path := p.Path()
	// test-support and developer tooling are not part of the analyzer that runs under a driver
	return !strings.HasPrefix(path, modPath+"/nilawaytest") && !strings.HasPrefix(path, modPath+"/tools")
}

// enumerateFrameSites generates the ownership obligations of every function of the analyzer.
func enumerateFrameSites(L *Loaded, db *ContractDB) []FrameSite {
	var sites []FrameSite
	add := func(fn *ssa.Function, in ssa.Instruction, what, desc string, o Own, why string, ok, obs bool) {
		sites = append(sites, FrameSite{fn, in, what, desc, o, why, ok, obs})
	}
	for _, fn := range L.AllFns {
		if !framePkgInScope(fn) {
			continue
		}
		c := newOwnCtx(L, db, fn)
		okTarget := func(o Own) bool { return o == OwnOwned }
		for _, b := range fn.Blocks {
			for _, in := range b.Instrs {
				switch i := in.(type) {
				case *ssa.Store:
					switch a := i.Addr.(type) {
					case *ssa.FieldAddr:
						bt := a.X.Type().Underlying().(*types.Pointer).Elem()
						if obsNamed(bt) {
							st, _, _ := structOf(bt)
							o := c.own(a.X)
							add(fn, in, "store-field", typeStr(bt)+"."+st.Field(a.Field).Name(), o, c.why[a.X], okTarget(o), true)
						}
						if sharedNamed(bt) {
							st, _, _ := structOf(bt)
							fname := st.Field(a.Field).Name()
							o := c.own(a.X)
							add(fn, in, "store-field", typeStr(bt)+"."+fname, o, c.why[a.X], okTarget(o), false)
							// deep-ownership invariant
							if isDeepType(bt) && o == OwnOwned && (fname == "Blocks" || fname == "Nodes" || fname == "Succs") {
								vo := c.own(i.Val)
								add(fn, in, "deep-invariant", "array stored into "+typeStr(bt)+"."+fname+" of an owned object must be owned", vo, c.why[i.Val], vo == OwnOwned, false)
							}
						}
					case *ssa.IndexAddr:
						et := elemTypeOf(a.X.Type())
						if sharedNamed(et) {
							o := c.own(a.X)
							add(fn, in, "store-elem", "[]"+typeStr(et), o, c.why[a.X], okTarget(o), false)
							if isBlockPtr(et) && o == OwnOwned {
								vo := c.own(i.Val)
								add(fn, in, "deep-invariant", "block stored into an owned block array must be owned", vo, c.why[i.Val], vo == OwnOwned, false)
							}
						}
					default:
						if pt, ok := types.Unalias(i.Addr.Type()).Underlying().(*types.Pointer); ok && directShared(pt.Elem()) {
							if _, isAlloc := i.Addr.(*ssa.Alloc); !isAlloc {
								o := c.own(i.Addr)
								add(fn, in, "store-object", typeStr(pt.Elem()), o, c.why[i.Addr], okTarget(o), false)
							}
						}
					}
				case *ssa.MapUpdate:
					m := types.Unalias(i.Map.Type()).Underlying().(*types.Map)
					if mentionsNilaway(m) {
						continue // a map type mentioning NilAway types cannot belong to the driver
					}
					if sharedNamed(m.Key()) || sharedNamed(m.Elem()) || sharedNamed(elemTypeOf(m.Elem())) {
						o := c.own(i.Map)
						add(fn, in, "map-update", typeStr(m), o, c.why[i.Map], o == OwnOwned || o == OwnNilaway, false)
					}
				case *ssa.Call:
					cc := i.Common()
					if bi, ok := cc.Value.(*ssa.Builtin); ok {
						switch bi.Name() {
						case "append":
							et := elemTypeOf(cc.Args[0].Type())
							if sharedNamed(et) {
								o := c.own(cc.Args[0])
								// append never changes the visible content (indices < len) of its argument, but it writes into the
								// spare capacity of its backing array: for a driver-shared array that is a write to shared memory
								// (racing with any other analyzer that appends to the same slice; defect F28). An obligation since
								// round 9 (it was an observation before). The result keeps the ownership of the argument, so later
								// writes through it are obligations too.
								add(fn, in, "append", "[]"+typeStr(et), o, c.why[cc.Args[0]], okTarget(o), false)
								// ... unless the argument is (derived from) a re-slice x[lo:hi] without a capacity limit of an
								// array NilAway does not own: its "spare capacity" is the visible content x[hi:] of the original,
								// which append overwrites in place.
								if sl := resliceRoot(cc.Args[0]); sl != nil {
									ro := c.own(sl.X)
									add(fn, in, "append-into-reslice", "append to a re-slice (no capacity limit) of []"+typeStr(et)+" overwrites the elements after it in the original array, which must be owned", ro, c.why[sl.X], ro == OwnOwned || ro == OwnNilaway, false)
								}
								if isBlockPtr(et) && o == OwnOwned && len(cc.Args) == 2 {
									// appended elements come from a slice built for the call
									vo, why := c.appendedOwn(cc.Args[1])
									add(fn, in, "deep-invariant", "block appended to an owned block array must be owned", vo, why, vo == OwnOwned, false)
								}
							}
						case "copy", "clear", "delete":
							t0 := cc.Args[0].Type()
							if mentionsNilaway(t0) {
								continue
							}
							et := elemTypeOf(t0)
							var kt types.Type
							if m, ok := types.Unalias(t0).Underlying().(*types.Map); ok {
								kt = m.Key()
							}
							if sharedNamed(et) || kt != nil && sharedNamed(kt) {
								o := c.own(cc.Args[0])
								add(fn, in, "builtin-"+bi.Name(), typeStr(t0), o, c.why[cc.Args[0]], o == OwnOwned || o == OwnNilaway && kt != nil, false)
							}
						}
						continue
					}
					callee := cc.StaticCallee()
					if callee == nil {
						continue
					}
					key := calleeKey(callee)
					if ai, ok := mutatorFuncs[key]; ok && ai < len(cc.Args) {
						arg := cc.Args[ai]
						et := elemTypeOf(arg.Type())
						if (sharedNamed(arg.Type()) || sharedNamed(et)) && !mentionsNilaway(arg.Type()) {
							o := c.own(arg)
							obs := strings.Contains(key, "go/token.File")
							add(fn, in, "mutator-call", shortKey(key), o, c.why[arg], okTarget(o), obs)
						}
					}
					// ownership preconditions of the callee
					if fc := db.Funcs[key]; fc != nil {
						names := paramNames(callee, callee.Signature)
						for k, n := range names {
							if k < len(cc.Args) && fc.hasGhost("owns "+n) {
								o := c.own(cc.Args[k])
								add(fn, in, "call-pre", "argument "+n+" of "+shortKey(key)+" must be owned", o, c.why[cc.Args[k]], o == OwnOwned, false)
							}
						}
					}
				case *ssa.Return:
					for k, r := range i.Results {
						if contractGhost(db, fn, "returns-owned") && k == 0 || contractGhost(db, fn, fmt.Sprintf("returns-owned %d", k)) {
							o := c.own(r)
							add(fn, in, "returns-owned", fmt.Sprintf("result %d of %s", k, shortKey(fn.RelString(nil))), o, c.why[r], o == OwnOwned, false)
						}
					}
				}
			}
		}
		// closures capturing an owned parameter: "owns x" on an anonymous function is a claim about its parent
		for _, fv := range fn.FreeVars {
			if contractGhost(db, fn, "owns "+fv.Name()) {
				o, why := OwnUnknown, "no binding"
				if b, parent := freeVarBinding(fv); b != nil {
					pc := newOwnCtx(L, db, parent)
					if cell, ok := b.(*ssa.Alloc); ok {
						o, why = pc.cellOwn(cell, pc)
					} else if pfv, ok := b.(*ssa.FreeVar); ok {
						o, why = pc.freeVarCell(pfv)
					}
				}
				var at ssa.Instruction
				if len(fn.Blocks) > 0 && len(fn.Blocks[0].Instrs) > 0 {
					at = fn.Blocks[0].Instrs[0]
				}
				add(fn, at, "capture-pre", "captured "+fv.Name()+" must be owned in the enclosing function", o, why, o == OwnOwned, false)
			}
		}
	}
	sort.SliceStable(sites, func(i, j int) bool {
		pi, pj := "", ""
		if sites[i].In != nil {
			pi = L.pos(sites[i].In.Pos())
		}
		if sites[j].In != nil {
			pj = L.pos(sites[j].In.Pos())
		}
		return pi < pj
	})
	return sites
}

// resliceRoot follows the first argument of an append through phis, earlier appends and x[lo:] re-slices to a
// re-slice x[lo:hi] that keeps the capacity of x (no max): appending to it writes x[hi], x[hi+1], ...
func resliceRoot(v ssa.Value) *ssa.Slice {
	seen := map[ssa.Value]bool{}
	var walk func(v ssa.Value) *ssa.Slice
	walk = func(v ssa.Value) *ssa.Slice {
		if seen[v] {
			return nil
		}
		seen[v] = true
		switch x := v.(type) {
		case *ssa.Phi:
			for _, e := range x.Edges {
				if r := walk(e); r != nil {
					return r
				}
			}
		case *ssa.Call:
			if bi, ok := x.Common().Value.(*ssa.Builtin); ok && bi.Name() == "append" {
				return walk(x.Common().Args[0])
			}
		case *ssa.Slice:
			if x.High != nil && x.Max == nil {
				if _, isAlloc := x.X.(*ssa.Alloc); isAlloc {
					return nil // slicing a local array built for the call
				}
				return x
			}
			if x.High == nil {
				return walk(x.X)
			}
		}
		return nil
	}
	return walk(v)
}

// appendedOwn: ownership of the elements appended by append(s, t...) where t is the variadic slice.
func (c *ownCtx) appendedOwn(t ssa.Value) (Own, string) {
	if sl, ok := t.(*ssa.Slice); ok {
		if arr, ok := sl.X.(*ssa.Alloc); ok {
			// new [n]T; stores into its elements
			var vals []ssa.Value
			for _, r := range *arr.Referrers() {
				if ia, ok := r.(*ssa.IndexAddr); ok {
					for _, rr := range *ia.Referrers() {
						if s, ok := rr.(*ssa.Store); ok && s.Addr == ssa.Value(ia) {
							vals = append(vals, s.Val)
						}
					}
				}
			}
			if len(vals) > 0 {
				return c.joinAll(vals, "appended elements")
			}
		}
	}
	// append(a, b...) with b an existing slice: elements of b
	return c.elemOf(t, "element")
}


// frameObligations is the C17 check: every write whose target may be driver-shared must hit an owned object.
func frameObligations(L *Loaded, db *ContractDB, rep *Report) {
	sites := enumerateFrameSites(L, db)
	var obs []StructOb
	var observations []string
	nContracts := 0
	for _, fc := range db.Funcs {
		for _, g := range fc.Ghost {
			if strings.HasPrefix(strings.TrimSpace(g), "owns ") || strings.HasPrefix(strings.TrimSpace(g), "returns-owned") {
				nContracts++
			}
		}
	}
	seen := map[string]int{}
	for _, s := range sites {
		p := ""
		if s.In != nil {
			p = L.pos(s.In.Pos())
		}
		if s.Obs {
			if !s.OK {
				observations = append(observations, fmt.Sprintf("%s %s at %s in %s: %s", s.What, s.Desc, p, shortKey(s.Fn.RelString(nil)), s.Why))
			}
			continue
		}
		// named by function + kind + target + ordinal within the function, never by line
		base := fmt.Sprintf("C17/%s/%s:%s", shortKey(s.Fn.RelString(nil)), s.What, s.Desc)
		seen[base]++
		name := fmt.Sprintf("%s#%d", base, seen[base])
		obs = append(obs, StructOb{Name: name, OK: s.OK, Src: p, Detail: fmt.Sprintf("target is %s: %s", s.Own, s.Why)})
	}
	obs = append(obs, StructOb{Name: "C17/enumeration-nonempty", OK: len(sites) > 100, Detail: fmt.Sprintf("%d write sites enumerated, %d ownership contract clauses", len(sites), nContracts)})
	rep.addStruct(obs, "ownership-dataflow")
	rep.Extra["observations_outside_property_scope"] = observations
	rep.Assum["writes hidden inside external library calls are assumed absent for the read-only query methods NilAway uses"] = true
	rep.Assum["ownership inference is flow-insensitive over go/ssa def-use chains; interior pointers and reflection are not tracked"] = true
}


// closureEscapes: the closure value is used other than by being called (directly or through the local variable
// it is assigned to), e.g. passed as a callback; then its parameters are not determined by the visible call sites.
func closureEscapes(fn *ssa.Function) bool {
	parent := fn.Parent()
	if parent == nil {
		return true
	}
	var onlyCalled func(v ssa.Value, depth int) bool
	onlyCalled = func(v ssa.Value, depth int) bool {
		if depth > 4 || v.Referrers() == nil {
			return false
		}
		for _, r := range *v.Referrers() {
			switch u := r.(type) {
			case *ssa.Call:
				if u.Common().Value != v {
					return false
				}
			case *ssa.DebugRef:
			case *ssa.Store:
				if u.Val != v {
					continue
				}
				cell, ok := u.Addr.(*ssa.Alloc)
				if !ok {
					return false
				}
				for _, cr := range *cell.Referrers() {
					switch cu := cr.(type) {
					case *ssa.Store, *ssa.DebugRef:
					case *ssa.UnOp:
						if !onlyCalled(cu, depth+1) {
							return false
						}
					case *ssa.MakeClosure:
						// captured by another closure: its loads of the free variable must only be called
						inner := cu.Fn.(*ssa.Function)
						for i, b := range cu.Bindings {
							if b == ssa.Value(cell) {
								fv := inner.FreeVars[i]
								for _, fr := range *fv.Referrers() {
									switch fu := fr.(type) {
									case *ssa.UnOp:
										if !onlyCalled(fu, depth+1) {
											return false
										}
									case *ssa.DebugRef, *ssa.Store:
									case *ssa.MakeClosure:
										return false
									default:
										return false
									}
								}
							}
						}
					default:
						return false
					}
				}
			default:
				return false
			}
		}
		return true
	}
	for _, b := range parent.Blocks {
		for _, in := range b.Instrs {
			if mc, ok := in.(*ssa.MakeClosure); ok && mc.Fn == ssa.Value(fn) {
				if !onlyCalled(mc, 0) {
					return true
				}
			}
		}
	}
	return false
}

// ---------------------------------------------------------------------------------------------
// C16: non-interference of the per-function goroutines, by frames.
// ---------------------------------------------------------------------------------------------

// enumerateRaceSites: writes that could touch memory shared between goroutines.
func enumerateRaceSites(L *Loaded, db *ContractDB) ([]FrameSite, map[*ssa.Function]bool, []*ssa.Function) {
	var sites []FrameSite
	add := func(fn *ssa.Function, in ssa.Instruction, what, desc string, o Own, why string, ok bool) {
		sites = append(sites, FrameSite{fn, in, what, desc, o, why, ok, false})
	}
	entries := goroutineEntries(L)
	reach := reachableFrom(L, db, entries)
	for _, fn := range L.AllFns {
		if !framePkgInScope(fn) {
			continue
		}
		inGoroutine := reach[fn]
		isInit := fn.Name() == "init" || strings.HasPrefix(fn.Name(), "init#") || fn.Synthetic == "package initializer"
		c := newOwnCtx(L, db, fn)
		for _, b := range fn.Blocks {
			for _, in := range b.Instrs {
				switch i := in.(type) {
				case *ssa.Store:
					// (A) package-level variables are written only during initialisation
					if g := globalRoot(i.Addr); g != nil && !isInit {
						add(fn, in, "global-store", g.Pkg.Pkg.Path()+"."+g.Name(), OwnNilaway, "store to a package-level variable outside init", false)
					}
					// (B) element stores into slices that this function does not own (code run by the goroutines)
					if ia, ok := i.Addr.(*ssa.IndexAddr); ok && inGoroutine {
						if _, isSl := types.Unalias(ia.X.Type()).Underlying().(*types.Slice); isSl && !sharedNamed(elemTypeOf(ia.X.Type())) {
							o := c.own(ia.X)
							add(fn, in, "store-elem", "[]"+typeStr(elemTypeOf(ia.X.Type())), o, c.why[ia.X], o == OwnOwned)
						}
					}
					// (C) field stores in code run by the goroutines: the object written must be owned by the function
					// (allocated by it, or handed over by an 'owns' contract) - a shared object such as the package
					// configuration must stay read-only once the goroutines run
					if inGoroutine {
						if root := fieldRoot(i.Addr); root != nil {
							if _, isAlloc := root.(*ssa.Alloc); !isAlloc && sharedReadOnlyType(root.Type()) {
								o := c.own(root)
								add(fn, in, "store-field-of-shared-value", typeStr(root.Type()), o, c.why[root], o == OwnOwned)
							}
						}
					}
				case *ssa.MapUpdate:
					if g := globalRootVal(i.Map); g != nil && !isInit {
						add(fn, in, "global-map-update", g.Pkg.Pkg.Path()+"."+g.Name(), OwnNilaway, "update of a package-level map outside init", false)
					}
				case *ssa.Call:
					cc := i.Common()
					if callee := cc.StaticCallee(); callee != nil {
						key := calleeKey(callee)
						if ai, ok := mutatorFuncs[key]; ok && inGoroutine && ai < len(cc.Args) && (strings.HasPrefix(key, "slices.") || strings.HasPrefix(key, "sort.")) {
							arg := cc.Args[ai]
							if !sharedNamed(elemTypeOf(arg.Type())) {
								o := c.own(arg)
								add(fn, in, "in-place-"+key, typeStr(arg.Type()), o, c.why[arg], o == OwnOwned)
							}
						}
					}
				}
			}
		}
	}
	return sites, reach, entries
}

// sharedReadOnlyType: the pointee is one of the per-package values shared read-only by the goroutines
// (/verif/spec/c16_shared_types.json).
var sharedTypes map[string]bool

func sharedReadOnlyType(t types.Type) bool {
	pt, ok := types.Unalias(t).Underlying().(*types.Pointer)
	if !ok {
		return false
	}
	n, ok := types.Unalias(pt.Elem()).(*types.Named)
	if !ok || n.Obj().Pkg() == nil {
		return false
	}
	return sharedTypes[n.Obj().Pkg().Path()+"."+n.Obj().Name()]
}

// fieldRoot: for a store through a chain of field addresses, the pointer the chain starts from (nil otherwise).
func fieldRoot(addr ssa.Value) ssa.Value {
	fa, ok := addr.(*ssa.FieldAddr)
	if !ok {
		return nil
	}
	for {
		inner, ok := fa.X.(*ssa.FieldAddr)
		if !ok {
			return fa.X
		}
		fa = inner
	}
}

// goroutineEntries: functions started as goroutines (go statements and sync.WaitGroup.Go).
func goroutineEntries(L *Loaded) []*ssa.Function {
	var out []*ssa.Function
	for _, fn := range L.AllFns {
		if !framePkgInScope(fn) {
			continue
		}
		for _, b := range fn.Blocks {
			for _, in := range b.Instrs {
				switch i := in.(type) {
				case *ssa.Go:
					if f := resolveCallee(i.Common()); f != nil {
						out = append(out, f)
					} else if mc, ok := i.Common().Value.(*ssa.MakeClosure); ok {
						out = append(out, mc.Fn.(*ssa.Function))
					}
				case *ssa.Call:
					if c := i.Common().StaticCallee(); c != nil && calleeKey(c) == "(*sync.WaitGroup).Go" && len(i.Common().Args) == 2 {
						if mc, ok := i.Common().Args[1].(*ssa.MakeClosure); ok {
							out = append(out, mc.Fn.(*ssa.Function))
						}
					}
				}
			}
		}
	}
	return out
}

// reachableFrom: functions reachable through static calls, closures and (conservatively) every module
// implementation of an invoked interface method.
func reachableFrom(L *Loaded, db *ContractDB, roots []*ssa.Function) map[*ssa.Function]bool {
	x := newExec(L, db, newSorts())
	reach := map[*ssa.Function]bool{}
	work := append([]*ssa.Function(nil), roots...)
	for len(work) > 0 {
		f := work[len(work)-1]
		work = work[:len(work)-1]
		if o := f.Origin(); o != nil {
			f = o
		}
		if reach[f] {
			continue
		}
		reach[f] = true
		for _, b := range f.Blocks {
			for _, in := range b.Instrs {
				switch i := in.(type) {
				case *ssa.MakeClosure:
					work = append(work, i.Fn.(*ssa.Function))
				case ssa.CallInstruction:
					cc := i.Common()
					if c := resolveCallee(cc); c != nil {
						work = append(work, c)
					} else if cc.IsInvoke() {
						for _, t := range x.implementers(cc.Value.Type()) {
							if m := L.Prog.LookupMethod(t, cc.Method.Pkg(), cc.Method.Name()); m != nil {
								work = append(work, m)
							}
						}
					}
				}
			}
		}
	}
	return reach
}

func globalRoot(v ssa.Value) *ssa.Global {
	for {
		switch a := v.(type) {
		case *ssa.Global:
			return a
		case *ssa.FieldAddr:
			v = a.X
		case *ssa.IndexAddr:
			if _, isSl := types.Unalias(a.X.Type()).Underlying().(*types.Slice); isSl {
				return globalRootVal(a.X)
			}
			v = a.X
		default:
			return nil
		}
	}
}

// globalRootVal: the value was loaded (possibly through fields) from a package-level variable.
func globalRootVal(v ssa.Value) *ssa.Global {
	for k := 0; k < 6; k++ {
		switch a := v.(type) {
		case *ssa.UnOp:
			if g := globalRoot(a.X); g != nil {
				return g
			}
			return nil
		case *ssa.Slice:
			v = a.X
		default:
			return nil
		}
	}
	return nil
}

// raceObligations is the C16 check.
func raceObligations(L *Loaded, db *ContractDB, rep *Report) {
	sharedTypes = map[string]bool{}
	if b, err := os.ReadFile(filepath.Join(rep.verifDir, "spec", "c16_shared_types.json")); err == nil {
		var cfg struct{ Types []string }
		if json.Unmarshal(b, &cfg) == nil {
			for _, t := range cfg.Types {
				sharedTypes[t] = true
			}
		}
	}
	if len(sharedTypes) == 0 {
		rep.Errs = append(rep.Errs, "C16: spec/c16_shared_types.json missing or empty")
	}
	sites, reach, entries := enumerateRaceSites(L, db)
	var obs []StructOb
	seen := map[string]int{}
	for _, s := range sites {
		base := fmt.Sprintf("C16/%s/%s:%s", shortKey(normKey(s.Fn.RelString(nil))), s.What, s.Desc)
		seen[base]++
		obs = append(obs, StructOb{Name: fmt.Sprintf("%s#%d", base, seen[base]), OK: s.OK, Src: L.pos(s.In.Pos()), Detail: fmt.Sprintf("target is %s: %s", s.Own, s.Why)})
	}
	// ownership contracts (owns / returns-owned) are obligations of C16 as well: they are what makes the per-function
	// data of one goroutine unreachable from another
	for _, s := range enumerateFrameSites(L, db) {
		if s.Obs {
			continue
		}
		base := fmt.Sprintf("C16/%s/%s:%s", shortKey(normKey(s.Fn.RelString(nil))), s.What, s.Desc)
		seen[base]++
		p := ""
		if s.In != nil {
			p = L.pos(s.In.Pos())
		}
		obs = append(obs, StructOb{Name: fmt.Sprintf("%s#%d", base, seen[base]), OK: s.OK, Src: p, Detail: fmt.Sprintf("target is %s: %s", s.Own, s.Why)})
	}
	// goroutine bodies: one result per goroutine on every path, including the recovered-panic path
	var names []string
	for _, e := range entries {
		names = append(names, shortKey(normKey(e.RelString(nil))))
		for _, ob := range sendOnce(L, db, e) {
			obs = append(obs, ob)
		}
	}
	obs = append(obs, StructOb{Name: "C16/goroutine-entries-enumerated", OK: len(entries) >= 2, Detail: fmt.Sprintf("%d goroutine entries: %s; %d functions reachable", len(entries), strings.Join(names, ", "), len(reach))})
	rep.addStruct(obs, "frames-noninterference")
	rep.Assum["data-race freedom is argued by frames: no goroutine-reachable code writes memory it does not own; the Go memory model and races inside go/types lazy initialisation are outside reach"] = true
	rep.Assum["ownership inference is flow-insensitive; goroutine reachability uses static calls, closures and all module implementations of invoked interface methods"] = true
}

// sendOnce: a goroutine that reports through a channel sends exactly one result on the normal path and one in the
// deferred recover handler.
func sendOnce(L *Loaded, db *ContractDB, entry *ssa.Function) []StructOb {
	// the working function: the entry itself or the single module function it calls
	work := entry
	var sends []*ssa.Send
	collect := func(f *ssa.Function) []*ssa.Send {
		var out []*ssa.Send
		for _, b := range f.Blocks {
			for _, in := range b.Instrs {
				if s, ok := in.(*ssa.Send); ok {
					out = append(out, s)
				}
			}
		}
		return out
	}
	sends = collect(work)
	if len(sends) == 0 {
		for _, b := range entry.Blocks {
			for _, in := range b.Instrs {
				if c, ok := in.(*ssa.Call); ok {
					if f := c.Common().StaticCallee(); f != nil && fnPkg(f) != nil && strings.HasPrefix(fnPkg(f).Path(), modPath) {
						if s := collect(f); len(s) > 0 {
							work, sends = f, s
						}
					}
				}
			}
		}
	}
	name := "C16/goroutine/" + shortKey(normKey(entry.RelString(nil)))
	if len(sends) == 0 {
		return []StructOb{{Name: name + "/no-result-channel", OK: true, Detail: "the goroutine sends nothing (waiter)"}}
	}
	var obs []StructOb
	// a single send instruction outside any loop: at most one result per goroutine; with the contract
	// "sends-exactly-once" the send must also dominate every normal return
	ok := len(sends) == 1
	detail := fmt.Sprintf("%d send(s) in %s", len(sends), shortKey(normKey(work.RelString(nil))))
	what := "sends-at-most-once-on-normal-paths"
	if ok {
		sb := sends[0].Block()
		for _, b := range work.Blocks {
			for _, sc := range b.Succs {
				if sc.Dominates(b) && naturalLoop(sc)[sb] {
					ok = false
					detail += "; the send is inside a loop"
				}
			}
		}
	}
	if contractGhost(db, work, "sends-exactly-once") {
		what = "sends-exactly-once-on-normal-paths"
		if ok {
			for _, b := range work.Blocks {
				if len(b.Instrs) > 0 {
					if _, isRet := b.Instrs[len(b.Instrs)-1].(*ssa.Return); isRet && b != work.Recover && !sends[0].Block().Dominates(b) {
						ok = false
						detail += "; a return is not dominated by the send"
					}
				}
			}
		}
	}
	obs = append(obs, StructOb{Name: name + "/" + what, OK: ok, Detail: detail, Src: L.pos(sends[0].Pos())})
	// deferred recover handler that sends
	rec := false
	for _, af := range work.AnonFuncs {
		hasRecover, hasSend, deferred := false, false, false
		for _, b := range af.Blocks {
			for _, in := range b.Instrs {
				if c, ok := in.(*ssa.Call); ok {
					if bi, ok := c.Common().Value.(*ssa.Builtin); ok && bi.Name() == "recover" {
						hasRecover = true
					}
				}
				if _, ok := in.(*ssa.Send); ok {
					hasSend = true
				}
			}
		}
		for _, b := range work.Blocks {
			for _, in := range b.Instrs {
				if d, ok := in.(*ssa.Defer); ok {
					if mc, ok := d.Common().Value.(*ssa.MakeClosure); ok && mc.Fn == ssa.Value(af) && b == work.Blocks[0] {
						deferred = true
					}
				}
			}
		}
		if hasRecover && hasSend && deferred {
			rec = true
		}
	}
	obs = append(obs, StructOb{Name: name + "/recovered-panic-still-sends", OK: rec, Detail: "a closure deferred in the entry block recovers and sends an error result", Src: L.pos(work.Pos())})
	return obs
}
