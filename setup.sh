#!/bin/bash
# Builds the VC generator from files on disk only (offline).
set -e
cd "$(dirname "$0")"
export GOPROXY=off GOFLAGS=-mod=mod
mkdir -p bin evidence
(cd vc && go build -o ../bin/vc .)
echo "setup ok"
