#!/bin/bash
# usage: seedrun.sh <seed-name> <prop>...   -- applies /verif/seeded/<name>/patch.diff to a scratch copy of /repo and runs the checks
NAME=$1; shift
rm -rf /var/tmp/mut /var/tmp/mutverif; rsync -a --exclude .git /repo/ /var/tmp/mut/
mkdir -p /var/tmp/mutverif; cp -r /verif/spec /verif/bounded /var/tmp/mutverif/; cp /verif/known_findings.json /var/tmp/mutverif/
(cd /var/tmp/mut && patch -s -p1 < /verif/seeded/$NAME/patch.diff) || { echo "PATCH FAILED"; exit 3; }
(cd /var/tmp/mut && GOPROXY=off go build ./...) || { echo "DOES NOT COMPILE"; exit 3; }
for P in "$@"; do /verif/bin/vc check -prop $P -repo /var/tmp/mut -verif /var/tmp/mutverif 2>&1 | cut -c1-240 | tail -6; done
rm -rf /var/tmp/mut
