#!/usr/bin/env python3
"""bisect.py <script.smt2>: find the first assert line that makes the script unsatisfiable (debugging aid)."""
import sys,subprocess,re
lines=open(sys.argv[1]).read().split('\n')
idx=[i for i,l in enumerate(lines) if l.startswith('(assert')]
def unsat(k):
    body=[l for i,l in enumerate(lines) if not l.startswith('(assert') or i<=idx[k]]
    body=[l for l in body if (l.startswith('(') or l.startswith(' ') or l=='') and not l.startswith('(check-sat') and not l.startswith('(get-model')]
    open('/var/tmp/bis.smt2','w').write('\n'.join(body)+'\n(check-sat)\n')
    r=subprocess.run(['z3-new','-T:10','/var/tmp/bis.smt2'],capture_output=True,text=True).stdout.strip().split('\n')[0]
    return r=='unsat'
lo,hi=0,len(idx)-1
if not unsat(hi): print('whole script not unsat'); sys.exit()
while lo<hi:
    mid=(lo+hi)//2
    if unsat(mid): hi=mid
    else: lo=mid+1
print('first contradicting assert: line',idx[lo]+1)
print(lines[idx[lo]][:3000])
