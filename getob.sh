#!/bin/bash
# usage: getob.sh <func-substr> <obligation-substr> <path> > out.smt2   (debugging aid: script of one failing obligation)
cd /verif
bin/vc dump -func "$1" -obs -ob "$2" 2>&1 | awk -v n="$2" -v p="[$3]" 'index($0,n" "p) && /^  [a-z-]+ +(timeout|sat|unknown)/{f=1;next} f' | awk '/^  [a-z-]+ +(sat|unsat|timeout|unknown) /{exit} /^  \(symbolic/{exit} {print}' | sed '/^timeout$/d;/^unknown$/d;/^sat$/d'
