#!/bin/bash
# usage: mut.sh <prop> <file> <python-replace-old> <new>   -- applies a textual mutation on a scratch copy and runs the check
set -e
PROP=$1; FILE=$2; OLD=$3; NEW=$4
rm -rf /var/tmp/mut /var/tmp/mutverif; rsync -a --exclude .git /repo/ /var/tmp/mut/
mkdir -p /var/tmp/mutverif; cp -r /verif/spec /verif/bounded /var/tmp/mutverif/; cp /verif/known_findings.json /var/tmp/mutverif/ 2>/dev/null || true
python3 - "$FILE" "$OLD" "$NEW" <<'PY'
import sys
f,old,new=sys.argv[1:4]
p='/var/tmp/mut/'+f
s=open(p).read()
assert s.count(old)>=1, "pattern not found"
s=s.replace(old,new,1)
open(p,'w').write(s)
PY
(cd /var/tmp/mut && GOPROXY=off go build ./... ) || { echo "MUTANT DOES NOT COMPILE"; exit 3; }
/verif/bin/vc check -prop $PROP -repo /var/tmp/mut -verif /var/tmp/mutverif || true
rm -rf /var/tmp/mut
