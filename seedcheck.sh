#!/bin/bash
# usage: seedcheck.sh <seed-name> <source SEED dir> [props-to-check...]
# Confirms a seeded defect in a scratch worktree of /repo HEAD (demo passes clean, fails patched, suite passes patched),
# stores it under /verif/seeded/<name>/ and runs the listed checks against the patched tree.
set -u
NAME=$1; SRC=$2; shift 2; PROPS="$@"
export GOPROXY=off
DST=/verif/seeded/$NAME
mkdir -p $DST && rsync -a --delete "$SRC"/ $DST/
WT=/var/tmp/sc_$NAME
git -C /repo worktree remove --force $WT 2>/dev/null; rm -rf $WT
git -C /repo worktree add -q --detach $WT HEAD || exit 2
cd $WT && mkdir SEED && rsync -a $DST/ SEED/
CMD=$(python3 -c "import json;print(json.load(open('SEED/meta.json'))['demo_cmd'])")
place() { python3 - <<'PY'
import json,os,shutil
m=json.load(open('SEED/meta.json'))
for k,v in m.get('demo_files',{}).items():
    src=os.path.join('SEED',k)
    v=v.split(' ')[0]
    if os.path.isfile(src) and not v.startswith('('):
        os.makedirs(os.path.dirname(v) or '.',exist_ok=True); shutil.copy(src,v)
PY
}
place
LOG=$DST/confirm.log; : > $LOG
echo "== demo on clean tree: $CMD" >> $LOG
bash -c "$CMD" >> $LOG 2>&1; A=$?
git apply SEED/patch.diff >> $LOG 2>&1 || { echo "PATCH DOES NOT APPLY" | tee -a $LOG; }
place
echo "== demo on patched tree" >> $LOG
bash -c "$CMD" >> $LOG 2>&1; B=$?
# remove demo files, keep patch
# (no git stash here: the stash is shared by all worktrees of a repository, so concurrent runs swapped patches)
git clean -fdq -e SEED; git apply -R --check SEED/patch.diff 2>/dev/null || git apply SEED/patch.diff; rm -rf SEED
echo "== full suite on patched tree" >> $LOG
go build ./... >> $LOG 2>&1; C0=$?
go test -vet=off -count=1 ./... > $DST/suite.log 2>&1; C=$?
tail -30 $DST/suite.log >> $LOG
echo "RESULT demo_clean_exit=$A demo_patched_exit=$B build=$C0 suite_exit=$C" | tee -a $LOG
for P in $PROPS; do
  mkdir -p /var/tmp/scv_$NAME; rm -rf /var/tmp/scv_$NAME/*; cp -r /verif/spec /verif/bounded /verif/known_findings.json /var/tmp/scv_$NAME/ 2>/dev/null
  echo "== check $P on patched tree" | tee -a $LOG
  /verif/bin/vc check -prop $P -repo $WT -verif /var/tmp/scv_$NAME 2>&1 | cut -c1-300 | tee -a $LOG | grep -v "^KNOWN-FINDING" | tail -8
  rm -rf /var/tmp/scv_$NAME
done
cd /; git -C /repo worktree remove --force $WT; rm -rf $WT
