#!/bin/bash
# Must-fail corpus: usage: selftest/run.sh [<prop>]   (no arg = all)
# For every canary (selftest/mutants/*.patch and seeded/*/patch.diff) of the property: apply it to a scratch copy of
# /repo (outside /repo and /verif, removed at once), run the property's quick check there and require a VIOLATION.
# A canary that survives is an engine error: exit 2.
set -u
cd "$(dirname "$0")/.."
export GOPROXY=off GOFLAGS=-mod=mod
WANT="${1:-}"
S="${VERIF_SCRATCH:-/var/tmp}/verif.canary.$$"
fail=0; n=0
run_one() { # name prop patch
  local name=$1 prop=$2 patch=$3
  [ -n "$WANT" ] && [ "$WANT" != "$prop" ] && return
  n=$((n+1))
  rm -rf "$S"; mkdir -p "$S/repo" "$S/verif"
  rsync -a --exclude .git /repo/ "$S/repo/"
  cp -r spec bounded known_findings.json "$S/verif/"
  if ! (cd "$S/repo" && patch -s -p1 < "$patch") >/dev/null 2>&1; then echo "CANARY $name: patch does not apply (stale canary)"; fail=1; rm -rf "$S"; return; fi
  if ! (cd "$S/repo" && go build ./... ) >/dev/null 2>&1; then echo "CANARY $name: does not compile (stale canary)"; fail=1; rm -rf "$S"; return; fi
  out=$(bin/vc check -prop "$prop" -repo "$S/repo" -verif "$S/verif" 2>&1)
  if echo "$out" | grep -q "^VIOLATION property=$prop "; then
    echo "CANARY $name ($prop): caught by $(echo "$out" | grep -m1 '^VIOLATION' | sed 's/.*replays\/[^/]*\///; s/\.[0-9a-f]*\.txt.*//')"
  else
    echo "CANARY $name ($prop): SURVIVED"; fail=1
  fi
  rm -rf "$S"
}
for j in selftest/mutants/*.json; do
  name=$(basename "$j" .json); prop=$(python3 -c "import json;print(json.load(open('$j'))['property'])")
  run_one "$name" "$prop" "$(pwd)/selftest/mutants/$name.patch"
done
for d in seeded/*/; do
  name=$(basename "$d"); [ -f "$d/meta.json" ] || continue
  prop=$(python3 -c "import json;print(json.load(open('$d/meta.json'))['property'])")
  # a seed that no check catches is kept, with the reason, as a recorded miss: it is not a canary (DESIGN 9.15)
  if [ -f "$d/MISSED.md" ]; then { [ -z "$WANT" ] || [ "$WANT" = "$prop" ]; } && echo "CANARY seed:$name ($prop): RECORDED MISS (no check catches it; see $d""MISSED.md)"; continue; fi
  run_one "seed:$name" "$prop" "$(pwd)/$d/patch.diff"
done
echo "canaries run: $n"
[ $fail -eq 0 ] || { echo "ENGINE ERROR: a canary survived or is stale"; exit 2; }
