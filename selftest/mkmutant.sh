#!/bin/bash
# usage: mkmutant.sh <name> <prop> <file> <old> <new>  -- records a textual mutation as selftest/mutants/<name>.patch
set -e
NAME=$1; PROP=$2; FILE=$3; OLD=$4; NEW=$5
rm -rf /var/tmp/mk && mkdir -p /var/tmp/mk/a /var/tmp/mk/b
mkdir -p /var/tmp/mk/a/$(dirname $FILE) /var/tmp/mk/b/$(dirname $FILE)
cp /repo/$FILE /var/tmp/mk/a/$FILE; cp /repo/$FILE /var/tmp/mk/b/$FILE
python3 - "/var/tmp/mk/b/$FILE" "$OLD" "$NEW" <<'PY'
import sys
f,old,new=sys.argv[1:4]
s=open(f).read(); assert s.count(old)>=1, "pattern not found"; open(f,'w').write(s.replace(old,new,1))
PY
(cd /var/tmp/mk && diff -u a/$FILE b/$FILE > /verif/selftest/mutants/$NAME.patch || true)
echo "{\"property\": \"$PROP\", \"kind\": \"own mutant\"}" > /verif/selftest/mutants/$NAME.json
rm -rf /var/tmp/mk
