#!/usr/bin/env python3
"""Regenerates MANIFEST.json from manifest_src.json (claims) + properties.jsonl; keeps not_applicable complete."""
import json,subprocess
props=[json.loads(l)['id'] for l in open('/verif/properties.jsonl')]
src=json.load(open('/verif/manifest_src.json'))
baseline=json.load(open('/root/.vp/BASELINE.json'))
commits=subprocess.run(['git','-C','/repo','log','--format=%H %s','69ada4b..HEAD'],capture_output=True,text=True).stdout.strip().split('\n')
hook_commits=[c.split()[0] for c in commits if c and ' verif:' in ' '+c.split(' ',1)[1][:7] or c.split(' ',1)[1].startswith('verif:')] if commits!=[''] else []
checks=[]
for pid in props:
    c=src['checks'].get(pid)
    if not c: continue
    checks.append({
      "property_id":pid,
      "quick_cmd":f"./check {pid} --tier quick",
      "thorough_cmd":f"./check {pid} --tier thorough",
      "evidence_file":f"/verif/evidence/{pid}.json",
      "replay_cmd_template":f"./check {pid} --replay {{path}}",
      "engine":"vc",
      "level_claimed":{"category":"proof","text":c['text'],"design_ref":c.get('design_ref','DESIGN.md §3')},
      "level_note":c['note'],
      "technique":c.get('technique',"contract-based deductive verification: WP/symbolic execution over go/ssa of /repo, contracts as //@ comments (tag verif), obligations discharged by z3/cvc5"),
    })
na=[{"property_id":p,"reason":src['not_applicable'].get(p,"check not built yet in this round; no claim is made")} for p in props if p not in src['checks']]
m={"version":1,
 "setup_cmd":"./setup.sh",
 "hooks":{"guard":"verif","enable":"-tags verif (makes the comment-only zz_contracts_verif.go files visible to go/packages; they contain no code)",
          "baseline_off_cmd":baseline['cmd'],"source_commits":hook_commits,"add_only":True},
 "engines":[{"name":"vc","path":"/verif/vc","serves_properties":[c['property_id'] for c in checks],
             "kind_free_text":"verification-condition generator over go/ssa with Gobra-style //@ contracts kept in /repo/<pkg>/zz_contracts_verif.go; z3-new/cvc5/z3 portfolio"}],
 "checks":checks,
 "notes":src.get('notes',''),
 "not_applicable":na}
json.dump(m,open('/verif/MANIFEST.json','w'),indent=1)
print(len(checks),"checks;",len(na),"not applicable")
