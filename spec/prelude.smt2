; Specification-only vocabulary shared by all packages. Every declared function without a definition is an
; uninterpreted abstraction; every (assert ...) here is an axiom and is listed in the evidence.
(declare-fun pkgpath (Int) Str)        ; import path of a *types.Package
(declare-fun docContains (Int Str) Bool) ; asthelper.DocContains(file, s) as a function of the file and the string
(declare-fun rt (Iface) Int)             ; run-time value (0 = nil) of an ssa.Value in the execution under consideration
(declare-fun relOK (Str Str) Bool)       ; filepath.Rel(base, target) succeeds
(declare-fun relPath (Str Str) Str)      ; its result when it does
(declare-fun encOK (Iface) Bool)          ; objectpath.Encoder.For(obj) succeeds
(declare-fun encPath (Iface) Str)         ; its result when it does
(declare-fun namedFullString (Int) Str)  ; (*types.Named).String(): the import-path-qualified name (assumed injective on distinct named types)
