package m1

// F2 (C13): with grouping on, the plain message ends in
//   (Same nil source could also cause potential nil panic(s) at 1 other place(s): "m1/a.go:17:10".)
// and the pretty-printed one, after stripping ANSI escapes and the `error: ` prefix, in
//   (... at 1 other place(s): m1/a.go:17:10.)   -- the double quotes are gone.

func src() *int { return nil }

func f() int {
	p := src()
	a := *p
	return a
}

func g() int {
	p := src()
	return *p
}
