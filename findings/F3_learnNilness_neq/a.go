package m4

// F3 (C20): f gets the inferred contract nonnil->nonnil because learnNilness "learns" p == nil on
// the `p != q` edge from the fact that q is known non-nil.  use() panics at run time
// (f(x) returns nil since x != q); NilAway reports nothing for use().  use2() is reported.

func f(p *int) *int {
	q := new(int)
	if p != q {
		return nil
	}
	return p
}

func use() int {
	x := new(int)
	r := f(x)
	return *r
}

func f2(p *int) *int {
	if p != nil {
		return nil
	}
	return p
}

func use2() int {
	x := new(int)
	r := f2(x)
	return *r
}
