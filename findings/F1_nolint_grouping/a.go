package m1

// F1 (C11): with -group-error-messages=true (default) the //nolint on the first
// member of the group removes the diagnostic at g()'s dereference as well.
// Observed: grouped => 0 diagnostics; -group-error-messages=false => 1 (at `return *p` in g).

func src() *int { return nil }

func f() int {
	p := src()
	a := *p //nolint:nilaway
	return a
}

func g() int {
	p := src()
	return *p
}
