package m3

import "errors"

// F4 (C20/C05): f has the inferred contract nonnil->nonnil, so its triggers are duplicated per
// call site and gated on the call-site argument site.  In callerErr the argument `v` becomes
// nilable only in step 4 of Engine.ObservePackage (error-return dependent triggers), after
// buildPkgInferenceMap has overwritten controlledTriggersBySite; the gated triggers are never
// activated.  Observed: callerErrDirect (`*v`) and callerPlain are reported, callerErr (`*r`) is not,
// although callerErr panics whenever cond is false.

var cond bool

func f(x *int) *int {
	if x != nil {
		return new(int)
	}
	return nil
}

func g() (*int, error) {
	var e error
	if cond {
		e = errors.New("x")
	}
	return nil, e
}

func h() *int {
	return nil
}

func callerErr() int {
	v, err := g()
	if err != nil {
		return 0
	}
	r := f(v)
	return *r
}

func callerErrDirect() int {
	v, err := g()
	if err != nil {
		return 0
	}
	return *v
}

func callerPlain() int {
	v := h()
	r := f(v)
	return *r
}
